#!/usr/bin/env python3
"""Scratch workers for sensitivity runs: each worker owns a git worktree of
/repo and a snapshot copy of /verif (both under /tmp/fcvrun/<k>/), so breaking
changes are applied to, checked in and reverted from copies only; /repo and
/verif/evidence are never touched. Build output persists inside the snapshot
between runs (incremental rebuilds); `python3 tools/scratch.py clean` removes
everything."""
import os
import subprocess
import sys
import threading
import queue

ROOT = os.path.dirname(os.path.dirname(os.path.abspath(__file__)))
BASE = "/tmp/fcvrun"
REPO = "/repo"


def sh(cmd, **kw):
    return subprocess.run(cmd, stdout=subprocess.PIPE, stderr=subprocess.STDOUT, text=True, **kw)


class Worker:
    def __init__(self, k, threads=None):
        self.k = k
        self.dir = os.path.join(BASE, str(k))
        self.repo = os.path.join(self.dir, "repo")
        self.verif = os.path.join(self.dir, "verif")
        self.threads = threads

    def sync(self):
        os.makedirs(self.dir, exist_ok=True)
        head = sh(["git", "-C", REPO, "rev-parse", "HEAD"]).stdout.strip()
        if not os.path.isdir(self.repo):
            r = sh(["git", "-C", REPO, "worktree", "add", "--detach", self.repo, head])
            if r.returncode != 0:
                raise SystemExit(r.stdout)
        else:
            sh(["git", "-C", self.repo, "checkout", "--", "."])
            sh(["git", "-C", self.repo, "checkout", "--detach", head])
        os.makedirs(self.verif, exist_ok=True)
        # FCV_SNAPSHOT_SRC: take the snapshot from a frozen copy (e.g. a clone of a commit)
        # instead of the working directory, so that /verif can be edited meanwhile
        src = os.environ.get("FCV_SNAPSHOT_SRC", ROOT)
        r = sh(["rsync", "-a", "--delete", "--exclude", ".git", "--exclude", "target*", "--exclude", "evidence", "--exclude", "replays",
                "--exclude", "autotraits_work", "--exclude", "seeded", "--exclude", "refactors", "--exclude", "__pycache__", src + "/", self.verif + "/"])
        if r.returncode != 0:
            raise SystemExit(r.stdout)

    def apply_patch(self, path):
        r = sh(["git", "-C", self.repo, "apply", path])
        return r.returncode == 0, r.stdout

    def edit(self, rel, old, new):
        p = os.path.join(self.repo, rel)
        s = open(p).read()
        if s.count(old) < 1:
            return False
        open(p, "w").write(s.replace(old, new, 1))
        return True

    def revert(self):
        sh(["git", "-C", self.repo, "checkout", "--", "."])
        sh(["git", "-C", self.repo, "clean", "-fdq", "--", "src", "tests"])

    def diff(self):
        return sh(["git", "-C", self.repo, "diff"]).stdout

    def compiles(self):
        e = dict(os.environ, CARGO_NET_OFFLINE="true")
        r = sh(["cargo", "check", "--offline", "--manifest-path", os.path.join(self.repo, "Cargo.toml")], env=e)
        return r.returncode == 0, r.stdout

    def check(self, prop, tier="quick", seed=None):
        e = dict(os.environ, FCV_REPO=self.repo)
        # sensitivity runs measure the generated search: the saved corpus stays out unless asked for
        if os.environ.get("FCV_WITH_CORPUS") != "1":
            e["FCV_NO_CORPUS"] = "1"
        if self.threads:
            e["FCV_THREADS"] = str(self.threads)
        if seed is not None:
            e["VERIF_SEED"] = str(seed)
        r = sh(["python3", os.path.join(self.verif, "check.py"), prop, "--tier", tier], cwd=self.verif, env=e)
        return r.returncode, r.stdout


def pool_map(items, fn, nworkers=4, threads=8):
    """fn(worker, item) for every item, on nworkers scratch workers."""
    base = int(os.environ.get("FCV_POOL_BASE", "0"))  # two pools at once must not share workers
    workers = [Worker(base + k, threads) for k in range(nworkers)]
    for w in workers:
        w.sync()
    q = queue.Queue()
    for it in items:
        q.put(it)
    lock = threading.Lock()

    def loop(w):
        while True:
            try:
                it = q.get_nowait()
            except queue.Empty:
                return
            try:
                fn(w, it, lock)
            except Exception as ex:  # keep the pool alive
                with lock:
                    print("worker %d: %s failed: %r" % (w.k, it, ex))
            finally:
                w.revert()

    ts = [threading.Thread(target=loop, args=(w,)) for w in workers]
    for t in ts:
        t.start()
    for t in ts:
        t.join()


def clean():
    if os.path.isdir(BASE):
        for k in os.listdir(BASE):
            repo = os.path.join(BASE, k, "repo")
            if os.path.isdir(repo):
                sh(["git", "-C", REPO, "worktree", "remove", "--force", repo])
        sh(["rm", "-rf", BASE])
    sh(["git", "-C", REPO, "worktree", "prune"])


if __name__ == "__main__":
    if sys.argv[1:] == ["clean"]:
        clean()
    else:
        print(__doc__)
