#!/usr/bin/env python3
"""Sensitivity suite: small realistic breaking changes ("mutants") of
futures-concurrency and the checks expected to catch them.

  python3 tools/mutants.py list
  python3 tools/mutants.py diff            # (re)write mutants/<name>.diff
  python3 tools/mutants.py run [name ...]  # apply to /repo, run the expected
                                           # checks, revert; print a table

Each mutant is applied to /repo's working tree with string replacement and
reverted with `git checkout -- .` straight afterwards. Nothing is committed.
"""
import json
import os
import subprocess
import sys
import time

ROOT = os.path.dirname(os.path.dirname(os.path.abspath(__file__)))
REPO = "/repo"

# name -> (expected properties, [(file, old, new), ...], note)
M = {}


def mut(name, props, edits, note=""):
    M[name] = (props, edits, note)


JOIN_VEC_HEAD_OLD = """        let mut readiness = this.wakers.readiness();
        readiness.set_waker(cx.waker());
        if *this.pending != 0 && !readiness.any_ready() {
            // Nothing is ready yet
            return Poll::Pending;
        }
"""
JOIN_VEC_HEAD_NEW = """        let mut readiness = this.wakers.readiness();
        if *this.pending != 0 && !readiness.any_ready() {
            // Nothing is ready yet
            return Poll::Pending;
        }
        readiness.set_waker(cx.waker());
"""
mut("join_vec_set_waker_late", ["C01"],
    [("src/future/join/vec.rs", JOIN_VEC_HEAD_OLD, JOIN_VEC_HEAD_NEW)],
    "set_waker moved below the early Pending return: a spurious poll with a new task waker leaves the old waker registered")

mut("inline_waker_vec_inverted", ["C01"],
    [("src/utils/wakers/vec/waker.rs", "if !readiness.set_ready(self.id) {", "if readiness.set_ready(self.id) {")],
    "parent woken only if the bit was already set")

mut("inline_waker_array_no_forward_when_others_ready", ["C01"],
    [("src/utils/wakers/array/waker.rs", "if !readiness.set_ready(self.id) {",
      "let others = readiness.any_ready();\n        if !readiness.set_ready(self.id) && !others {")],
    "array waker skips the parent wake when some other child's bit is already set (looks like an optimisation)")

mut("merge_array_no_rearm", ["C01"],
    [("src/stream/merge/array.rs", "                    this.wakers.readiness().set_ready(index);\n", "")],
    "merge does not re-arm the input that just yielded")

mut("merge_tuple_no_rearm", ["C01"],
    [("src/stream/merge/tuple.rs", "                    $this.wakers.readiness().set_ready($stream_idx);\n", "")],
    "tuple merge does not re-arm the input that just yielded")

mut("zip_vec_no_set_all_ready", ["C01"],
    [("src/stream/zip/vec.rs", "                        readiness.set_all_ready();\n", "")],
    "zip does not re-arm its inputs after a full row")

mut("join_vec_break_on_pending", ["C20"],
    [("src/future/join/vec.rs", """                    unsafe { ManuallyDrop::drop(fut.get_unchecked_mut()) };
                }
""", """                    unsafe { ManuallyDrop::drop(fut.get_unchecked_mut()) };
                } else {
                    break;
                }
""")],
    "join stops scanning at the first Pending child (sequential evaluation)")

mut("readiness_vec_poll_everything", ["C16"],
    [("src/utils/wakers/vec/readiness_vec.rs", """        if self.readiness_list[index] {
            self.ready_count -= 1;
            self.readiness_list.set(index, false);
            true
        } else {
            false
        }""", """        if self.readiness_list[index] {
            self.ready_count -= 1;
            self.readiness_list.set(index, false);
        }
        true""")],
    "clear_ready always reports 'was ready': every unfinished child polled on every poll")

mut("try_join_array_err_marks_ready", ["C02"],
    [("src/future/try_join/array.rs", """                            this.state[i].set_none();
                            unsafe { ManuallyDrop::drop(fut.get_unchecked_mut()) };

                            return Poll::Ready(Err(err));""", """                            this.state[i].set_ready();
                            unsafe { ManuallyDrop::drop(fut.get_unchecked_mut()) };

                            return Poll::Ready(Err(err));""")],
    "the historical #155: the failing slot is marked Ready, the destructor then drops an uninitialised output")

mut("join_array_drop_skips_pending", ["C02"],
    [("src/future/join/array.rs", """        for i in this.state.pending_indexes() {
            // SAFETY: we've just filtered down to *only* the pending futures,
            // which have not yet been dropped.
            unsafe { this.futures.as_mut().drop(i) };
        }""", """        for i in this.state.pending_indexes().skip(1) {
            // SAFETY: we've just filtered down to *only* the pending futures,
            // which have not yet been dropped.
            unsafe { this.futures.as_mut().drop(i) };
        }""")],
    "destructor leaks the first still-pending child")

mut("join_vec_output_at_completion_rank", ["C04"],
    [("src/future/join/vec.rs", "                    this.items.write(i, value);", "                    let rank = states.len() - *this.pending;\n                    this.items.write(rank, value);")],
    "output written at the completion rank instead of the child's index (identical when children finish in index order)")

mut("join_tuple_complete_one_early_defer", ["C04"],
    [("src/future/join/array.rs", """        if *this.pending == 0 {
            // Mark all data as "consumed" before we take it""", """        if *this.pending == 0 && !readiness.any_ready() {
            // Mark all data as "consumed" before we take it""")],
    "array join defers completion while a stale readiness bit is still set")

mut("try_join_vec_returns_last_error", ["C05"],
    [("src/future/try_join/vec.rs", "return Poll::Ready(Err(err));", "last_err = Some(err);"),
     ("src/future/try_join/vec.rs", "        // Poll all ready futures\n", "        let mut last_err = None;\n        // Poll all ready futures\n"),
     ("src/future/try_join/vec.rs", "        // Check whether we're all done now or need to keep going.\n", "        if let Some(err) = last_err {\n            return Poll::Ready(Err(err));\n        }\n        // Check whether we're all done now or need to keep going.\n")],
    "try_join keeps scanning after an error and reports the last one seen in the poll")

mut("race_vec_scans_on_after_winner", ["C06"],
    [("src/future/race/vec.rs", """                Poll::Ready(item) => {
                    *this.done = true;
                    return Poll::Ready(item);
                }
                Poll::Pending => continue,
            }
        }
        Poll::Pending""", """                Poll::Ready(item) => {
                    *this.done = true;
                    if winner.is_none() {
                        winner = Some(item);
                    }
                }
                Poll::Pending => continue,
            }
        }
        match winner {
            Some(item) => Poll::Ready(item),
            None => Poll::Pending,
        }"""),
     ("src/future/race/vec.rs", "        for index in this.indexer.iter() {\n            let fut = utils::get_pin_mut_from_vec", "        let mut winner = None;\n        for index in this.indexer.iter() {\n            let fut = utils::get_pin_mut_from_vec")],
    "race finishes the scan before returning: children are polled after the winner resolved, later winners dropped")

mut("race_ok_array_error_at_rank", ["C07"],
    [("src/future/race_ok/array/mod.rs", """        for ((fut, out), st) in futures
            .zip(this.errors.iter_mut())
            .zip(this.error_states.iter_mut())
        {
            if st.is_ready() {
                continue;
            }
            if let Poll::Ready(output) = fut.poll(cx) {
                match output {
                    Ok(ok) => return Poll::Ready(Ok(ok)),
                    Err(err) => {
                        *out = MaybeUninit::new(err);
                        *this.completed += 1;
                        st.set_ready();
                    }
                }
            }
        }""", """        let mut polled = [false; N];
        for (i, fut) in futures.enumerate() {
            if polled_done(this.error_states, *this.completed, i) {
                continue;
            }
            let _ = &mut polled;
            if let Poll::Ready(output) = fut.poll(cx) {
                match output {
                    Ok(ok) => return Poll::Ready(Ok(ok)),
                    Err(err) => {
                        let slot = *this.completed;
                        this.errors[slot] = MaybeUninit::new(err);
                        this.error_states[slot].set_ready();
                        *this.completed += 1;
                    }
                }
            }
        }"""),
     ("src/future/race_ok/array/mod.rs", "#[must_use = \"futures do nothing unless you `.await` or poll them\"]\n#[pin_project(PinnedDrop)]\npub struct RaceOk",
      "fn polled_done<const N: usize>(_st: &PollArray<N>, _completed: usize, _i: usize) -> bool {\n    false\n}\n\n#[must_use = \"futures do nothing unless you `.await` or poll them\"]\n#[pin_project(PinnedDrop)]\npub struct RaceOk")],
    "errors stored at completion rank; failed children are polled again")

mut("merge_vec_ignores_ended_state", ["C03", "C08"],
    [("src/stream/merge/vec.rs", "} else if !readiness.clear_ready(index) || this.state[index].is_none() {", "} else if !readiness.clear_ready(index) {")],
    "merge forgets that an input ended: a stale wake-up re-polls it and its end is counted twice")

mut("zip_array_repolls_buffered", ["C09", "C02"],
    [("src/stream/zip/array.rs", "} else if this.state[index].is_ready() || !readiness.clear_ready(index) {", "} else if !readiness.clear_ready(index) {")],
    "zip polls an input whose item for the current row is already buffered and overwrites it")

mut("chain_vec_prepolls_next", ["C10"],
    [("src/stream/chain/vec.rs", """                Poll::Pending => return Poll::Pending,
            }
        }""", """                Poll::Pending => {
                    // warm up the next stream while we wait
                    if *this.index + 1 < *this.len {
                        if let Some(next) = utils::iter_pin_mut_vec(this.streams.as_mut()).nth(*this.index + 1) {
                            if let Poll::Ready(Some(item)) = next.poll_next(cx) {
                                return Poll::Ready(Some(item));
                            }
                        }
                    }
                    return Poll::Pending;
                }
            }
        }""")],
    "chain polls the next input while the current one is pending")

mut("indexer_no_rotation", ["C17"],
    [("src/utils/indexer.rs", "        self.offset = (self.offset + 1).wrapping_rem(self.max);\n", "")],
    "rotating start offset removed: input 0 always scanned first")

mut("indexer_rotation_skips_last", ["C17"],
    [("src/utils/indexer.rs", "        self.offset = (self.offset + 1).wrapping_rem(self.max);", "        self.offset = (self.offset + 1).wrapping_rem(self.max.saturating_sub(1).max(1));")],
    "offset wraps one early: the last input is never scanned first")

mut("wait_until_stream_switches_next_poll", ["C19"],
    [("src/stream/wait_until.rs", """                Poll::Ready(_) => {
                    *this.state = State::Streaming;
                    this.stream.poll_next(cx)
                }""", """                Poll::Ready(_) => {
                    *this.state = State::Streaming;
                    cx.waker().wake_by_ref();
                    Poll::Pending
                }""")],
    "stream wait_until starts the inner stream only on the poll after the deadline resolved")

mut("wait_until_future_polls_inner_early", ["C19"],
    [("src/future/wait_until.rs", """                State::Started => {
                    ready!(this.deadline.as_mut().poll(cx));
                    *this.state = State::PollFuture;
                }""", """                State::Started => {
                    if this.deadline.as_mut().poll(cx).is_pending() {
                        // make progress on the future in the meantime
                        if let Poll::Ready(v) = this.future.as_mut().poll(cx) {
                            *this.state = State::Completed;
                            return Poll::Ready(v);
                        }
                        return Poll::Pending;
                    }
                    *this.state = State::PollFuture;
                }""")],
    "future wait_until polls the inner future while the deadline is pending")

mut("nostd_waker_keeps_first_parent", ["C01"],
    [("src/utils/wakers/vec/no_std.rs", "            Some(prev) => prev.clone_from(parent_waker),", "            Some(_prev) => {}"),
     ("src/utils/wakers/array/no_std.rs", "            Some(prev) => prev.clone_from(parent_waker),", "            Some(_prev) => {}")],
    "alloc-only/no_std strategy keeps the first task waker forever (only those configurations are affected)")

mut("stream_group_no_rearm", ["C01", "C12"],
    [("src/stream/stream_group.rs", """                        let mut readiness = this.wakers.readiness();
                        readiness.set_ready(index);
""", "")],
    "StreamGroup does not re-arm the member that just yielded")

mut("join_tuple_drop_skips_outputs", ["C02"],
    [("src/future/join/tuple.rs", "        if $states[$state_idx].is_ready() {\n            // SAFETY: we've just filtered down to *only* the initialized values.", "        if $states[$state_idx].is_ready() && $state_idx != 1 {\n            // SAFETY: we've just filtered down to *only* the initialized values.")],
    "tuple join destructor forgets the already-produced output of child 1")

mut("try_join_tuple_polls_after_ready", ["C03"],
    [("src/future/try_join/tuple.rs", "                    if !readiness.clear_ready(index) || this.state[index].is_ready() {", "                    if !readiness.clear_ready(index) {")],
    "tuple try_join drops the 'already completed' guard: a stale wake-up re-polls a finished child (whose storage was already dropped)")

# ---- groups (C11, C12)
mut("future_group_remove_keeps_slab_entry", ["C11"],
    [("src/future/future_group.rs", """            self.states[key.0].set_none();
            self.futures.remove(key.0);
        }
        is_present""", """            self.states[key.0].set_none();
        }
        is_present""")],
    "FutureGroup::remove forgets the slab entry: the member is not dropped and len() stays")

mut("future_group_yielded_key_stays", ["C11"],
    [("src/future/future_group.rs", """        if let Poll::Ready(Some((key, _))) = ret {
            this.keys.remove(&key.0);
        }
""", "")],
    "the key of a yielded member stays in the key set: contains_key keeps answering true")

mut("future_group_insert_does_not_arm", ["C11", "C20"],
    [("src/future/future_group.rs", """        self.states[index].set_pending();
        self.wakers.readiness().set_ready(index);

        Key(index)""", """        self.states[index].set_pending();

        Key(index)""")],
    "insert does not arm the slot: a member inserted into a re-used slot whose bit is clear is never polled")

mut("future_group_empty_check_removed", ["C11"],
    [("src/future/future_group.rs", """        if this.futures.is_empty() {
            return Poll::Ready(None);
        }
""", "")],
    "an empty FutureGroup answers Pending instead of None")

mut("stream_group_none_when_any_ended", ["C12"],
    [("src/stream/stream_group.rs", "        if done_count == stream_count {", "        if done_count > 0 && ret.is_pending() {")],
    "StreamGroup returns None as soon as some member ended in a poll that yielded nothing, although others remain")

mut("stream_group_keyed_wrong_key", ["C12"],
    [("src/stream/stream_group.rs", "                        ret = Poll::Ready(Some((Key(index), item)));", "                        ret = Poll::Ready(Some((Key(index + done_count), item)));")],
    "keyed StreamGroup tags an item with a shifted key when another member ended earlier in the same poll")

mut("stream_group_removal_queue_not_drained", ["C12"],
    [("src/stream/stream_group.rs", """            for key in this.key_removal_queue.iter() {
                this.keys.remove(key);
            }
            this.key_removal_queue.clear();""", """            for key in this.key_removal_queue.iter().skip(1) {
                this.keys.remove(key);
            }
            this.key_removal_queue.clear();""")],
    "the first member that ended in a poll keeps its key: contains_key stays true")

mut("stream_group_remove_keeps_state", ["C12"],
    [("src/stream/stream_group.rs", """        let is_present = self.keys.remove(&key.0);
        if is_present {
            self.states[key.0].set_none();
            self.streams.remove(key.0);
        }
        is_present
    }

    /// Returns `true` if the `StreamGroup` contains a value for the specified key.""", """        let is_present = self.keys.contains(&key.0);
        if is_present {
            self.states[key.0].set_none();
            self.streams.remove(key.0);
        }
        is_present
    }

    /// Returns `true` if the `StreamGroup` contains a value for the specified key.""")],
    "StreamGroup::remove leaves the key in the key set (a later poll indexes a vacant slab slot)")


# ---------------------------------------------------------------- concurrent streams
mut("for_each_backpressure_off_by_one", ["C13"],
    [("src/concurrent_stream/for_each.rs", "while this.count.load(Ordering::Relaxed) >= *this.limit {", "while this.count.load(Ordering::Relaxed) > *this.limit {")],
    "for_each back-pressure admits limit + 1 closure futures")

mut("for_each_flush_waits_for_one", ["C13"],
    [("src/concurrent_stream/for_each.rs", """        // resolved.
        while (this.group.next().await).is_some() {}
    }""", """        // resolved.
        this.group.next().await;
    }""")],
    "for_each resolves when the first in-flight closure future completes after the source ended")

mut("for_each_count_released_at_closure_call", ["C13"],
    [("src/concurrent_stream/for_each.rs", """            this.fut_t = None;
            this.fut_b = Some(fut_b);
        }
""", """            this.fut_t = None;
            this.fut_b = Some(fut_b);
            this.count.fetch_sub(1, Ordering::Relaxed);
        }
"""),
     ("src/concurrent_stream/for_each.rs", """            ready!(unsafe { Pin::new_unchecked(fut) }.poll(cx));
            this.count.fetch_sub(1, Ordering::Relaxed);
            this.done = true;""", """            ready!(unsafe { Pin::new_unchecked(fut) }.poll(cx));
            this.done = true;""")],
    "the in-flight counter is released when the closure is called, not when its future completes")

mut("try_for_each_progress_drops_residual", ["C14"],
    [("src/concurrent_stream/try_for_each.rs", """        while let Some(res) = this.group.next().await {
            if let ControlFlow::Break(residual) = res.branch() {
                *this.residual = Some(residual);
                return ConsumerState::Break;
            }
        }
        ConsumerState::Empty""", """        while let Some(res) = this.group.next().await {
            if let ControlFlow::Break(_residual) = res.branch() {
                return ConsumerState::Break;
            }
        }
        ConsumerState::Empty""")],
    "progress forgets the error it saw: flush reports Ok unless another future fails")

mut("try_for_each_send_swallows_error", ["C14"],
    [("src/concurrent_stream/try_for_each.rs", """                    ControlFlow::Break(residual) => {
                        *this.residual = Some(residual);
                        return ConsumerState::Break;
                    }""", """                    ControlFlow::Break(residual) => {
                        *this.residual = Some(residual);
                        break;
                    }""")],
    "an error seen in the back-pressure loop is stored but the item is still pushed and the source keeps being driven")

mut("result_vec_progress_reports_empty_on_error", ["C14"],
    [("src/concurrent_stream/from_concurrent_stream.rs", """                Err(e) => {
                    **this.output = Err(e);
                    return ConsumerState::Break;
                }""", """                Err(e) => {
                    **this.output = Err(e);
                    return ConsumerState::Empty;
                }""")],
    "collect into Result: after an error the driver is told 'empty' and takes one more item from the source")

mut("vec_consumer_flush_takes_one", ["C15"],
    [("src/concurrent_stream/from_concurrent_stream.rs", """    async fn flush(self: Pin<&mut Self>) -> Self::Output {
        let mut this = self.project();
        while let Some(item) = this.group.next().await {
            this.output.push(item);
        }
    }""", """    async fn flush(self: Pin<&mut Self>) -> Self::Output {
        let mut this = self.project();
        if let Some(item) = this.group.next().await {
            this.output.push(item);
        }
    }""")],
    "collect's final flush takes only one of the futures still in flight")

mut("enumerate_counts_after_send", ["C15"],
    [("src/concurrent_stream/enumerate.rs", """        let count = *this.count;
        *this.count += 1;
        this.inner.send(EnumerateFuture::new(future, count)).await""", """        let state = this.inner.send(EnumerateFuture::new(future, *this.count)).await;
        if !matches!(state, super::ConsumerState::Break) {
            *this.count += 1;
        }
        state""")],
    "equivalent on purpose (control): the index is still attached at send time")

mut("take_counts_only_continue", ["C15"],
    [("src/concurrent_stream/take.rs", """        *this.count += 1;
        let state = this.inner.send(future).await;
        if this.count >= this.limit {""", """        let state = this.inner.send(future).await;
        *this.count += 1;
        if this.count > this.limit {""")],
    "take(n) lets n + 1 items through (the pinned take test asserts n < 5 on take(5) and does catch this one; kept as a sanity row)")

# ---------------------------------------------------------------- auto traits
mut("for_each_counter_rc", ["C18"],
    [("src/concurrent_stream/for_each.rs", "use alloc::sync::Arc;", "use alloc::rc::Rc as Arc;")],
    "the in-flight counter of for_each lives in an Rc: the for_each future is no longer Send")

mut("try_for_each_counter_rc", ["C18"],
    [("src/concurrent_stream/try_for_each.rs", "use alloc::sync::Arc;", "use alloc::rc::Rc as Arc;")],
    "the in-flight counter of try_for_each lives in an Rc")

mut("indexer_cell_marker", ["C18"],
    [("src/utils/indexer.rs", """pub(crate) struct Indexer {
    offset: usize,
    max: usize,
}""", """pub(crate) struct Indexer {
    offset: usize,
    max: usize,
    _not_sync: core::marker::PhantomData<core::cell::Cell<()>>,
}"""),
     ("src/utils/indexer.rs", "Self { offset: 0, max }", "Self { offset: 0, max, _not_sync: core::marker::PhantomData }")],
    "a Cell marker in the rotating indexer: merge / race / race_ok stay Send but are no longer Sync")

mut("stream_group_raw_pointer_marker", ["C18"],
    [("src/stream/stream_group.rs", "    capacity: usize,\n}", "    capacity: usize,\n    _marker: core::marker::PhantomData<*const ()>,\n}"),
     ("src/stream/stream_group.rs", "            capacity,\n        }", "            capacity,\n            _marker: core::marker::PhantomData,\n        }")],
    "a raw-pointer marker in StreamGroup: neither Send nor Sync")

mut("chain_vec_sync_needs_send", ["C18"],
    [("src/stream/chain/vec.rs", "    done: bool,\n}", "    done: bool,\n    #[cfg(feature = \"std\")]\n    _lock: core::marker::PhantomData<std::sync::Mutex<S>>,\n}"),
     ("src/stream/chain/vec.rs", "            done: false,\n        }", "            done: false,\n            #[cfg(feature = \"std\")]\n            _lock: core::marker::PhantomData,\n        }")],
    "a Mutex<S> marker in Vec chain (std): Send as before, but Sync only when the streams are Send - children that are Sync and not Send no longer give a Sync chain")

# ---------------------------------------------------------------- true thread races
# These only misbehave when a wake-up from another thread lands *between two
# steps inside the library*; no interleaving of whole wake() calls and whole
# child polls exposes them. Only the storm mode (helper threads) can.
WAKE_VEC_OLD = """        let mut readiness = self.readiness.lock().unwrap();
        if !readiness.set_ready(self.id) {
            readiness
                .parent_waker()
                .expect("`parent_waker` not available from `Readiness`. Did you forget to call `Readiness::set_waker`?")
                .wake_by_ref()
        }
"""
WAKE_VEC_TWO_PHASE = """        // take the task waker first, so that the lock is not held while waking
        let parent = self.readiness.lock().unwrap().parent_waker().cloned();
        let was_ready = self.readiness.lock().unwrap().set_ready(self.id);
        if !was_ready {
            parent
                .expect("`parent_waker` not available from `Readiness`. Did you forget to call `Readiness::set_waker`?")
                .wake_by_ref()
        }
"""
mut("race_inline_waker_vec_two_phase", ["C01"],
    [("src/utils/wakers/vec/waker.rs", WAKE_VEC_OLD, WAKE_VEC_TWO_PHASE)],
    "THREAD RACE: InlineWakerVec::wake reads the task waker in one critical section and sets the bit in a second one; a poll with a fresh task waker in between leaves the wake-up with the stale task")

JOIN_ARR_HEAD_OLD = """        let mut readiness = this.wakers.readiness();
        readiness.set_waker(cx.waker());
        if *this.pending != 0 && !readiness.any_ready() {
            // Nothing is ready yet
            return Poll::Pending;
        }
"""
JOIN_ARR_HEAD_RACY = """        if *this.pending != 0 && !this.wakers.readiness().any_ready() {
            // Nothing is ready yet: only remember whom to wake
            this.wakers.readiness().set_waker(cx.waker());
            return Poll::Pending;
        }
        let mut readiness = this.wakers.readiness();
        readiness.set_waker(cx.waker());
"""
mut("race_join_array_check_then_register", ["C01"],
    [("src/future/join/array.rs", JOIN_ARR_HEAD_OLD, JOIN_ARR_HEAD_RACY)],
    "THREAD RACE: array join tests 'nothing ready' in one critical section and registers the new task waker in a second one; a wake-up in between goes to the previous task waker")


def sh(cmd, **kw):
    return subprocess.run(cmd, stdout=subprocess.PIPE, stderr=subprocess.STDOUT, text=True, **kw)


def revert():
    sh(["git", "-C", REPO, "checkout", "--", "."])


def apply(name):
    props, edits, _ = M[name]
    for f, old, new in edits:
        p = os.path.join(REPO, f)
        s = open(p).read()
        if s.count(old) < 1:
            raise SystemExit("mutant %s: pattern not found in %s" % (name, f))
        s = s.replace(old, new, 1)
        open(p, "w").write(s)


def write_diffs():
    d = os.path.join(ROOT, "mutants")
    os.makedirs(d, exist_ok=True)
    assert sh(["git", "-C", REPO, "status", "--porcelain", "--untracked-files=no"]).stdout.strip() == "", "/repo not clean"
    for name in M:
        apply(name)
        diff = sh(["git", "-C", REPO, "diff"]).stdout
        revert()
        with open(os.path.join(d, name + ".diff"), "w") as f:
            f.write("# expected to be caught by: %s\n# %s\n" % (", ".join(M[name][0]), M[name][2]))
            f.write(diff)
    print("wrote %d diffs" % len(M))


def run(names, all_props=False, nworkers=4):
    """Each mutant is applied to a scratch worktree of /repo and checked by a
    snapshot copy of /verif (tools/scratch.py); /repo itself is not touched."""
    sys.path.insert(0, os.path.dirname(os.path.abspath(__file__)))
    import scratch as scr
    results = {}

    def one(w, name, lock):
        props, edits, _ = M[name]
        for f, old, new in edits:
            if not w.edit(f, old, new):
                with lock:
                    print("%-42s pattern not found in %s" % (name, f))
                    results[name] = {"applies": False}
                return
        ok, out = w.compiles()
        if not ok:
            with lock:
                print("%-42s DOES NOT COMPILE\n%s" % (name, out[-1500:]))
                results[name] = {"compiles": False}
            return
        row = {}
        targets = props if not all_props else sorted(set(props) | set(ALL_PROPS))
        for pid in targets:
            t0 = time.time()
            rc, out = w.check(pid)
            if rc == 1 and os.environ.get("FCV_HARVEST") == "1":
                import corpus
                with lock:
                    corpus.harvest(out, "mutant %s" % name)
            row[pid] = (rc, round(time.time() - t0, 1))
            if rc not in (0, 1):
                with lock:
                    print(out[-800:])
        with lock:
            results[name] = row
            print("%-42s %s" % (name, "  ".join("%s:%s(%ss)" % (p, {0: "MISSED", 1: "caught", 2: "INFRA"}.get(rc, rc), t) for p, (rc, t) in row.items())))
            sys.stdout.flush()

    scr.pool_map(names, one, nworkers=nworkers)
    return results


ALL_PROPS = ["C%02d" % i for i in range(1, 21)]

if __name__ == "__main__":
    a = sys.argv[1:]
    if not a or a[0] == "list":
        for n, (p, e, note) in M.items():
            print("%-42s %-12s %s" % (n, ",".join(p), note))
    elif a[0] == "diff":
        write_diffs()
    elif a[0] == "run":
        names = [x for x in a[1:] if not x.startswith("--")] or list(M)
        res = run(names, all_props="--all-props" in a)
        path = os.path.join(ROOT, "mutants", "last_run.json")
        try:
            allres = json.load(open(path))
        except Exception:
            allres = {}
        allres.update(res)
        with open(path, "w") as f:
            json.dump(allres, f, indent=1, sort_keys=True)
