#!/usr/bin/env python3
"""Writes /verif/MANIFEST.json from the table below (kept in one place so the
manifest is always consistent with check.py)."""
import json
import os

ROOT = os.path.dirname(os.path.dirname(os.path.abspath(__file__)))

NOTE_COMMON = ("Trusted base: the harness (scripted children, wake-only executor, trace oracles) and, for generation, "
               "proptest's RNG seeded from VERIF_SEED. Bounds: tuples <= 12, Vec <= 1100 (boundary lengths 22..24, 63..66, 100, 128/129, 200, 255..257, 300, 1025, 1100 now and then in the quick tier, "
               "often in the thorough tier), arrays up to 300 (one 65537-input array merge as a regression case), scripts <= 10 steps (now and then 240..570 Pending answers first), "
               "schedules <= 40 actions, two levels of nesting, five type-dimension variants (children / values / errors without destructor, heterogeneous tuples, zero-sized values), "
               "no poll of a combinator after its own final result; after a caught panic only ownership is judged. Generated search never establishes absence. Wake-ups from "
               "other threads: scripted schedules fire wakers between polls, inside a child's poll and from joined helper threads; truly simultaneous wake-ups are explored by the "
               "storm phase of the std configurations only (helper threads invoke the wakers while the task thread polls, mutates a group or drops the combinator; 10^5 cases per "
               "configuration in the quick tier; interleavings chosen by the OS scheduler, not enumerated; C16 and C17 have no storm phase). A reproduced deadlock counts as a violation for C01. "
               "Saved inputs (corpus/<PROP>.comb.txt: minimised inputs that exposed seeded changes in sensitivity runs) are evaluated before the generated cases in every tier; "
               "the thorough tier adds a bounded libFuzzer campaign (ASan, std) over the same decoder and oracles, started from those saved inputs.")

NOTE_GROUP = ("Trusted base: the harness (scripted members, wake-only executor, reference model of the live members, trace oracles) and proptest's RNG "
              "seeded from VERIF_SEED. Bounds: histories <= 40 operations (quick) / 120 (thorough) plus bursts of up to 70 (rarely 1100) inserts, initial capacity <= 128, reserve <= 130, "
              "groups collected from up to 128 members, extend / from_iter from iterators with exact, absent and under-reporting size hints and from an iterator that wakes parked members, "
              "member scripts <= 6 steps, members may be nested combinators. A storm phase (std configurations) runs 10^5 histories with the wakers invoked by helper threads, concurrently "
              "with the operations that follow; a reproduced deadlock of a group operation counts as a violation. Generated search never establishes absence. Shared-oracle violations count only when the "
              "group itself is to blame (DESIGN.md section 4, Attribution). Saved inputs (corpus/<PROP>.comb.txt) are evaluated before the generated histories; the thorough tier adds a bounded libFuzzer campaign started from them.")
NOTE_CO = ("Trusted base: the harness (scripted source, one scripted future per closure invocation, wake-only executor, trace oracles) and proptest's RNG seeded from "
           "VERIF_SEED. Bounds: source length <= 12 (now and then 33 / 70 / 300 / 1100, limits up to 1025; endless sources behind take(k)), adapter stacks of depth <= 3, closure-future scripts <= 4 steps, "
           "schedules <= 30 actions, size hints none / exact / inexact / with a huge upper bound, a mass-completion template (>= 32 closure futures completing in one progress call), std and alloc-only; no storm phase. "
           "An error counts as observed by the consumer at the moment the failing future answers (futures only answer when the consumer polls them). "
           "Generated search never establishes absence. Saved inputs (corpus/<PROP>.co.txt) are evaluated before the generated cases; the thorough tier adds a bounded libFuzzer campaign started from them.")
NOTE_AUTOTRAITS = ("Trusted base: rustc's trait solver and the generator of obligation programs. Each accepted obligation has type parameters as leaves, so it holds for every "
                   "child type with the stated bounds; sampling is only over constructors, containers, arities (arrays 1,2,3,5,12; tuples 0..12) and nestings (depth <= 3). The Sync "
                   "obligations bound children and outputs by Sync alone, the Send obligations by Send alone; tuple race_ok additionally needs E: Debug (a precondition of the API). Closures of the concurrent-stream "
                   "functions are Send but not Sync. A negative control must be rejected, otherwise the run exits 2.")
NOTES = {"group": NOTE_GROUP, "co": NOTE_CO, "autotraits": NOTE_AUTOTRAITS}

CHECKS = {
    "C01": ("comb", "§5 C01, §4 L/P",
            "proptest over decoded byte strings -> (combinator tree, child scripts, adversarial poll/fire/drop schedule) run by a wake-only executor with a fresh task waker per poll; oracle L (first invocation of a pending child's current waker must wake the most recent task, between polls and from inside polls), P (at quiescence of a fair drain a pending combinator must be explained by a never-completing child) and no waker invocation may panic; all families x tuple/array/Vec/group x nesting x std/alloc/no_std",
            "property-based testing: generated wake schedules vs. lost-wake-up and quiescence-progress invariants on the observed trace"),
    "C02": ("comb", "§5 C02, §4 D",
            "same generator with drops at every point and one injected child panic, 16% of the cases being concurrent-stream pipelines (source, closure futures, early drop, injected panic); oracle D: every child and every produced value dropped exactly once, children gone when the combinator's drop returns, nothing returned that was not produced, reads of uninitialised slots show up as drops of unknown tokens",
            "property-based testing with fault injection (drop points, injected panics) vs. exactly-once drop accounting"),
    "C03": ("comb", "§5 C03, §4 Q",
            "same generator biased to stale wake-ups at finished children, 16% of the cases being concurrent-stream pipelines (source never polled after None, closure futures never after Ready); oracle Q: no child poll outside a poll of the top-level combinator, none after the child completed, none after the owner produced its final result",
            "property-based testing: generated schedules vs. poll-discipline invariant on the poll log"),
    "C04": ("comb", "§5 C04", "join over tuples 0..12, arrays, Vec (<=200 thorough), a.join(b), nested; oracle: output = children's outputs position by position, resolves exactly in the poll in which the last child resolves, never earlier or later",
            "property-based testing: trace relation between child answers and join output (positional, same-poll)"),
    "C05": ("comb", "§5 C05", "try_join with every Ok/Err assignment and completion order; oracle: Err = first failure in trace order, returned in that very poll, no child poll afterwards; Ok positional in the poll of the last child",
            "property-based testing: trace relation for first-error short-circuit"),
    "C06": ("comb", "§5 C06", "race over >= 1 children; oracle: result = first child answer Ready in trace order, in that poll, no child poll afterwards",
            "property-based testing: trace relation for first-ready-wins"),
    "C07": ("comb", "§5 C07", "race_ok incl. zero-length array/Vec; oracle: first Ok wins in its poll, otherwise positional aggregate error in the poll of the last failure, failed children never re-polled",
            "property-based testing: trace relation for first-ok / positional aggregate error"),
    "C08": ("comb", "§5 C08", "merge incl. zero inputs; oracle: every yielded item is the next unyielded item of some input (exactly once, per-input order), an item produced during a poll makes that poll yield, None exactly in the poll in which the last input ended (first poll for zero inputs), nothing left inside at None or at quiescence",
            "property-based testing: multiset/order/termination relation between input scripts and merged output"),
    "C09": ("comb", "§5 C09", "zip over >= 1 inputs of unequal length; oracle: row k = k-th items positionally, None in the poll in which an input ended and nothing polled afterwards, no input more than one item ahead, unmatched items dropped not yielded (with D)",
            "property-based testing: row-structure relation between input scripts and zipped output"),
    "C10": ("comb", "§5 C10", "chain incl. empty inputs and zero inputs; oracle: output = concatenation, input j first polled only after input j-1 returned None, None in the poll in which the last input ended",
            "property-based testing: concatenation and sequentiality relation on the poll log"),
    "C16": ("comb", "§5 C16, §4 S", "std only: spurious polls, sibling wakes, stale wakes; oracle S: a child whose last answer was Pending is re-polled only if one of its wakers was invoked since that poll began",
            "property-based testing: generated spurious polls vs. selectivity invariant on poll/wake logs"),
    "C17": ("comb", "§5 C17", "merge with one designated always-ready input at a random position among arbitrary others; oracle: every window of N consecutive yields contains an item of the designated input",
            "property-based testing: sliding-window fairness predicate over item provenance"),
    "C19": ("comb", "§5 C19", "future and stream wait_until with scripted deadline and inner; oracle: inner untouched before the deadline's Ready, first inner poll in that very poll, deadline never polled again, outputs identical to the inner's from then on",
            "property-based testing: differential against the inner script after the deadline"),
    "C20": ("comb", "§5 C20", "never-completing children at every position; oracle: at every Pending answer of a concurrent combinator each child it owns has been polled at least once; at quiescence all other children ran to completion / results were delivered",
            "property-based testing: never-completing children vs. all-started and sibling-progress invariants"),
    "C11": ("group", "§5 C11", "stateful operation histories (insert / remove of any key ever returned / reserve / extend / poll woken or spurious / fire current or stale wakers / drop; new, with_capacity, from_iter; plain and keyed) on the real FutureGroup compared, after every operation, with a reference model of the live members: len, is_empty, contains_key for every key ever returned, capacity >= len, distinct live keys, remove's return value and drop-at-removal, each poll's result related to what the members answered during that poll (value, key, exactly once, None iff empty), refill after None; plus L/P/Q/D on the same histories; std and alloc-only",
            "model-based (stateful) property testing: generated operation histories vs. reference set model and per-poll trace relation"),
    "C12": ("group", "§5 C12", "as C11 for StreamGroup with multi-item member scripts: every item of every member exactly once and in member order (each member answer Some(x) must be the result of that very poll), keyed items tagged with the insert key, a member that answers None is dropped and gone from the set view when the poll returns, None iff no member remains, several members ending in one poll, refill after None; std and alloc-only",
            "model-based (stateful) property testing: generated operation histories vs. reference set model and per-poll trace relation"),
}

CHECKS["C13"] = ("co", "§5 C13",
    "scripted source (scripted stream through .co(), or Vec::into_co_stream) x optional map/enumerate/limit stack x for_each, one scripted closure future per item (any pending count, self/sibling/late wakes, never-completing), driven by the hostile wake-only executor with drops at any point; oracle on the trace: the closure is invoked exactly once per source item and with that item's value, the operation resolves only when every closure future has completed, created-and-uncompleted closure invocations never exceed the limit, an early drop leaves nothing alive, and a fair drain without never-completing futures must end resolved (no lost wake-up in send/progress/flush); std and alloc-only",
    "property-based testing: generated source/closure-future schedules vs. exactly-once, structured-completion, concurrency-bound and quiescence-progress invariants on the observed trace")
CHECKS["C14"] = ("co", "§5 C14",
    "as C13 for try_for_each and collect::<Result<Vec<_>,_>> with every Ok/Err assignment, so that the first error surfaces in send's back-pressure loop, in progress, or only in the final flush; oracle: Ok only if every expected item was processed and every closure future answered Ok (collect: and the Ok values are exactly theirs), Err carries an error token some closure future actually returned, once an error has come out of a closure future no further source item is taken, no closure is invoked and no in-flight future completes, and after the drop nothing is alive; std and alloc-only",
    "property-based testing: generated Ok/Err assignments and schedules vs. error-fidelity and cancellation invariants on the observed trace")
CHECKS["C15"] = ("co", "§5 C15",
    "every adapter stack of depth <= 3 over {map, enumerate, take(0..=len+2), limit} (85 stack shapes) x {collect::<Vec<_>>, for_each, try_for_each} x {stream.co(), Vec::into_co_stream}, source length 0..=12, completion order decoupled from source order by the closure-future scripts; oracle: every map closure invoked exactly once per processed item and with the value the stack in front of it produces (enumerate = zero-based source position), processed items are exactly the first min(n, len) for the smallest take in the stack (none for n = 0), collect returns exactly the multiset of per-item outputs; 36 hand-written regression cases run first (30 for take(0), 6 for collect under size hints with a huge upper bound / take of an endless source); std and alloc-only",
    "property-based testing: generated adapter stacks and completion orders vs. reference semantics (multiset, source index, exact prefix) read off the closure-invocation log")

CHECKS["C18"] = ("autotraits", "§5 C18",
    "generated programs type-checked by rustc against /repo (std and alloc-only): one generic obligation per type expression over the public constructors - every combinator x {array N in 1,2,3,5,12; Vec; tuple arity 0..12}, FutureGroup, StreamGroup, both Keyed views, both WaitUntil, in projection form and by their public names (stage A, exhaustive at depth 1), random nestings of depth 2-3 (stage B) - asserting Send under Send-only leaves and Sync under Sync-only leaves, the leaves being type parameters so that each accepted obligation holds for every child type; plus one generic function per (source, adapter stack of depth <= 3, terminal) asserting that the opaque for_each / try_for_each / collect future is Send; a rejected obligation is shrunk structurally and the minimal program is the replay; a negative control (an Rc leaf) must be rejected",
    "property-based testing over generated programs: random and exhaustive type expressions, oracle = the obligation must type-check (rustc trait solver), structural shrinking, negative control")

NA = {
    "C11": "check under construction in this session (group model driver)",
    "C12": "check under construction in this session (group model driver)",
    "C13": "check under construction in this session (concurrent-stream driver)",
    "C14": "check under construction in this session (concurrent-stream driver)",
    "C15": "check under construction in this session (concurrent-stream driver)",
    "C18": "check under construction in this session (generated auto-trait obligations)",
}


def main():
    checks = []
    for pid in sorted(CHECKS):
        engine, ref, text, tech = CHECKS[pid]
        checks.append({
            "property_id": pid,
            "quick_cmd": "python3 check.py %s --tier quick" % pid,
            "thorough_cmd": "python3 check.py %s --tier thorough" % pid,
            "evidence_file": "/verif/evidence/%s.json" % pid,
            "replay_cmd_template": "python3 check.py %s --replay {path}" % pid,
            "engine": engine,
            "level_claimed": {"category": "exploration", "text": text, "design_ref": ref},
            "level_note": NOTES.get(engine, NOTE_COMMON),
            "technique": tech,
        })
    m = {
        "version": 1,
        "setup_cmd": "python3 check.py --setup",
        "hooks": {
            "guard": "none",
            "enable": "no hooks: every observation is made through the public API with harness-owned children; the harness crate depends on /repo by path with default-features=false and selects std / alloc / no feature",
            "baseline_off_cmd": "cd /repo && cargo test --workspace --no-fail-fast --offline",
            "source_commits": [],
            "add_only": True,
        },
        "engines": [
            {"name": "comb", "path": "harness/src", "serves_properties": sorted(k for k, v in CHECKS.items() if v[0] == "comb"),
             "kind_free_text": "proptest-driven byte decoder -> combinator tree + schedule; hostile wake-only executor; trace oracles"},
            {"name": "group", "path": "harness/src/groups.rs", "serves_properties": sorted(k for k, v in CHECKS.items() if v[0] == "group"),
             "kind_free_text": "stateful operation histories on FutureGroup/StreamGroup against a BTreeMap reference model"},
            {"name": "co", "path": "harness/src/costream.rs", "serves_properties": sorted(k for k, v in CHECKS.items() if v[0] == "co"),
             "kind_free_text": "scripted source + scripted per-item work futures through generated adapter stacks"},
            {"name": "autotraits", "path": "autotraits.py", "serves_properties": sorted(k for k, v in CHECKS.items() if v[0] == "autotraits"),
             "kind_free_text": "generated auto-trait obligation programs type-checked by rustc"},
        ],
        "checks": checks,
        "not_applicable": [{"property_id": k, "reason": v} for k, v in sorted(NA.items()) if k not in CHECKS],
        "notes": "All checks: exit 0 held / 1 violation / 2 infrastructure (build failure, hang watchdog). VERIF_SEED selects the proptest seed; each run is a function of the tree, the seed and the committed corpus/ (the storm phase's thread interleavings excepted). All twenty properties are claimed; not_applicable is empty (DESIGN.md section 6).",
    }
    with open(os.path.join(ROOT, "MANIFEST.json"), "w") as f:
        json.dump(m, f, indent=1)
        f.write("\n")


if __name__ == "__main__":
    main()
