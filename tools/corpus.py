#!/usr/bin/env python3
"""Saved-input corpus (`/verif/corpus/<PROP>.<comb|co>.txt`).

Every time a sensitivity run (tools/mutants.py, tools/seeded.py) sees a check
catch a breaking change, the minimised failing input of that run is harvested
here: one hex string per line, followed by `# origin`. On a tree on which the
property holds these inputs are ordinary generated cases, so they can never
raise an alarm there; on a broken tree they are the shapes that exposed some
realistic change before. check.py hands the file to the harness, which
evaluates the saved inputs before the generated ones (every tier, every
configuration), and the libFuzzer supplement starts from them.

  python3 tools/corpus.py stats
"""
import json
import os
import re
import sys

ROOT = os.path.dirname(os.path.dirname(os.path.abspath(__file__)))
CORPUS = os.path.join(ROOT, "corpus")
MAX_PER_FILE = 400


def harvest(out, origin):
    """out: the output of a check.py run that exited 1. Returns the number of inputs added."""
    added = 0
    for m in re.finditer(r"^VIOLATION property=(C\d\d) replay=(\S+)", out, re.M):
        prop, path = m.group(1), m.group(2)
        try:
            j = json.load(open(path))
        except Exception:
            continue
        if j.get("regress") or j.get("hang") or j.get("engine") in ("storm", "regress") or "bytes" not in j:
            continue
        kind = "co" if j.get("engine") == "co" else "comb"
        hx = j["bytes"] or "-"
        if len(hx) > 2400:
            continue
        os.makedirs(CORPUS, exist_ok=True)
        f = os.path.join(CORPUS, "%s.%s.txt" % (prop, kind))
        lines = open(f).read().splitlines() if os.path.exists(f) else []
        have = {l.split()[0] for l in lines if l.strip() and not l.startswith("#")}
        if hx in have or len(have) >= MAX_PER_FILE:
            continue
        case = re.sub(r"\s+", " ", j.get("case", ""))[:160]
        lines.append("%s  # %s [%s] %s" % (hx, origin, j.get("config", "?"), case))
        with open(f, "w") as fh:
            fh.write("\n".join(lines) + "\n")
        added += 1
    return added


def entries(prop, kind):
    f = os.path.join(CORPUS, "%s.%s.txt" % (prop, kind))
    if not os.path.exists(f):
        return []
    r = []
    for l in open(f).read().splitlines():
        tok = l.split("#")[0].split()
        if tok:
            r.append(b"" if tok[0] == "-" else bytes.fromhex(tok[0]))
    return r


if __name__ == "__main__":
    if sys.argv[1:] == ["stats"]:
        for f in sorted(os.listdir(CORPUS)) if os.path.isdir(CORPUS) else []:
            n = sum(1 for l in open(os.path.join(CORPUS, f)) if l.strip() and not l.startswith("#"))
            print("%-16s %d" % (f, n))
    else:
        print(__doc__)
