#!/usr/bin/env python3
"""Seeded changes: independent, realistic breaking changes of futures-concurrency
written by sub-agents that saw only the text of one property.

  python3 tools/seeded.py import <prop> <srcdir> [name]   # copy SEED/<x> into seeded/<prop>-<x>
  python3 tools/seeded.py verify [name ...]               # scratch worktree: suite passes, demo fails with / passes without
  python3 tools/seeded.py run [name ...] [--all-props]    # apply to /repo, run the check(s), revert
  python3 tools/seeded.py table                           # markdown table for DESIGN.md

Nothing is ever committed to /repo; every application is undone with
`git -C /repo checkout -- .` straight afterwards.
"""
import json
import os
import shutil
import subprocess
import sys
import time

ROOT = os.path.dirname(os.path.dirname(os.path.abspath(__file__)))
SEEDED = os.path.join(ROOT, os.environ.get("FCV_SEEDED_DIR", "seeded"))  # "refactors" for the false-alarm probes
REPO = "/repo"
SCRATCH = os.environ.get("FCV_VERIFY_SCRATCH", "/tmp/seedverify")


def sh(cmd, **kw):
    return subprocess.run(cmd, stdout=subprocess.PIPE, stderr=subprocess.STDOUT, text=True, **kw)


def env():
    e = dict(os.environ)
    e["CARGO_NET_OFFLINE"] = "true"
    e["CARGO_TERM_COLOR"] = "never"
    return e


def names():
    if not os.path.isdir(SEEDED):
        return []
    return sorted(d for d in os.listdir(SEEDED) if os.path.isfile(os.path.join(SEEDED, d, "patch.diff")))


def meta_path(n):
    return os.path.join(SEEDED, n, "meta.json")


def load_meta(n):
    try:
        return json.load(open(meta_path(n)))
    except Exception:
        return {}


def save_meta(n, m):
    with open(meta_path(n), "w") as f:
        json.dump(m, f, indent=1)
        f.write("\n")


def do_import(prop, src, only=None, rename=None):
    """rename: e.g. {"a": "c", "b": "d"} for a second round of changes"""
    for x in sorted(os.listdir(src)):
        d = os.path.join(src, x)
        if not os.path.isfile(os.path.join(d, "patch.diff")):
            continue
        if only and x != only:
            continue
        n = "%s-%s" % (prop, (rename or {}).get(x, x))
        dst = os.path.join(SEEDED, n)
        os.makedirs(dst, exist_ok=True)
        for f in ("patch.diff", "demo.rs", "notes.md"):
            if os.path.exists(os.path.join(d, f)):
                shutil.copy(os.path.join(d, f), os.path.join(dst, f))
        m = load_meta(n)
        pf = os.path.join(d, "property.txt")
        if os.path.exists(pf):
            # round 3: one agent per cluster of properties, the change names its property
            import re
            mm = re.search(r"C\d\d", open(pf).read())
            if mm:
                m["property"] = mm.group(0)
                m["breaks"] = mm.group(0)
        m.setdefault("property", prop)
        m.setdefault("breaks", prop)
        m.setdefault("origin", "sub-agent given only the text of %s and a scratch worktree" % prop)
        ff = os.path.join(d, "demo_flags.txt")
        if os.path.exists(ff):
            flags = open(ff).read().split()
            if flags:
                m["demo_flags"] = flags
        save_meta(n, m)
        print("imported", n)


def scratch():
    if not os.path.isdir(SCRATCH):
        r = sh(["git", "-C", REPO, "worktree", "add", "--detach", SCRATCH, "HEAD"])
        if r.returncode != 0:
            raise SystemExit(r.stdout)
    sh(["git", "-C", SCRATCH, "checkout", "--", "."])
    demo = os.path.join(SCRATCH, "tests", "seeded_demo.rs")
    if os.path.exists(demo):
        os.remove(demo)


def cargo_test(args):
    return sh(["cargo", "test", "--offline"] + args, cwd=SCRATCH, env=env())


def verify(n):
    """suite passes with the patch; demo fails with it and passes without it"""
    scratch()
    d = os.path.join(SEEDED, n)
    m = load_meta(n)
    res = {}
    r = sh(["git", "-C", SCRATCH, "apply", os.path.join(d, "patch.diff")])
    if r.returncode != 0:
        res["applies"] = False
        m["verify"] = res
        save_meta(n, m)
        print("%-12s patch does not apply: %s" % (n, r.stdout[-300:]))
        return False
    res["applies"] = True
    r = cargo_test(["--workspace", "--no-fail-fast"])
    res["suite_passes_with_patch"] = r.returncode == 0
    ok_builds = True
    for flags in (["--no-default-features"], ["--no-default-features", "--features", "alloc"]):
        b = sh(["cargo", "build", "--offline"] + flags, cwd=SCRATCH, env=env())
        ok_builds &= b.returncode == 0
    res["builds_alloc_and_no_std_with_patch"] = ok_builds
    shutil.copy(os.path.join(d, "demo.rs"), os.path.join(SCRATCH, "tests", "seeded_demo.rs"))
    demo_flags = m.get("demo_flags", [])
    r = cargo_test(demo_flags + ["--test", "seeded_demo"])
    res["demo_fails_with_patch"] = r.returncode != 0
    tail_with = r.stdout[-600:]
    sh(["git", "-C", SCRATCH, "checkout", "--", "src"])
    r = cargo_test(demo_flags + ["--test", "seeded_demo"])
    res["demo_passes_without_patch"] = r.returncode == 0
    os.remove(os.path.join(SCRATCH, "tests", "seeded_demo.rs"))
    res["commands"] = [
        "git apply patch.diff (scratch worktree of /repo HEAD under /tmp)",
        "CARGO_NET_OFFLINE=true cargo test --offline --workspace --no-fail-fast",
        "cargo build --offline --no-default-features [--features alloc]",
        "cp demo.rs tests/seeded_demo.rs; cargo test --offline --test seeded_demo   (with and without the patch)",
    ]
    if m.get("kind") == "refactor":
        # a behaviour-preserving refactoring: its demo shows the internal difference
        # (passes with the patch, fails without); the suite must pass and all configs build
        good = all([res["applies"], res["suite_passes_with_patch"], res["builds_alloc_and_no_std_with_patch"]])
        res["demo_shows_difference"] = (not res["demo_fails_with_patch"]) and (not res["demo_passes_without_patch"])
    else:
        good = all(res[k] for k in ("applies", "suite_passes_with_patch", "demo_fails_with_patch", "demo_passes_without_patch"))
    res["confirmed"] = good
    m["verify"] = res
    save_meta(n, m)
    print("%-12s %s  %s" % (n, "CONFIRMED" if good else "REJECTED", {k: v for k, v in res.items() if k != "commands"}))
    if not good:
        print(tail_with)
    return good


ALL_PROPS = ["C%02d" % i for i in range(1, 21)]


def run_many(sel, props=None, all_props=False, nworkers=4, seed=None):
    sys.path.insert(0, os.path.dirname(os.path.abspath(__file__)))
    import scratch as scr

    def one(w, n, lock):
        d = os.path.join(SEEDED, n)
        m = load_meta(n)
        target = m.get("property")
        ok, out = w.apply_patch(os.path.join(d, "patch.diff"))
        if not ok:
            with lock:
                print("%-12s patch does not apply: %s" % (n, out[-200:]))
            return
        row = {}
        todo = props or ([target] if not all_props else ALL_PROPS)
        for pid in todo:
            t0 = time.time()
            rc, out = w.check(pid, seed=seed)
            if rc == 1 and os.environ.get("FCV_HARVEST") == "1":
                import corpus
                with lock:
                    corpus.harvest(out, "%s %s" % (os.path.basename(SEEDED), n))
            first = ""
            for line in out.splitlines():
                if line.startswith("  ") and not first:
                    first = line.strip()[:300]
            row[pid] = {"exit": rc, "wall_s": round(time.time() - t0, 1), "first_message": first}
            if rc not in (0, 1):
                with lock:
                    print("%-12s %s INFRA:\n%s" % (n, pid, out[-1200:]))
        w.revert()
        with lock:
            m = load_meta(n)
            if seed is not None:
                # robustness runs with another VERIF_SEED are kept apart
                other = m.get("other_seeds", {})
                other[str(seed)] = {p: v["exit"] for p, v in row.items()}
                m["other_seeds"] = other
                save_meta(n, m)
                print("%-12s seed=%s %s" % (n, seed, "  ".join("%s:%s(%ss)" % (p, {0: "MISSED", 1: "caught", 2: "INFRA"}.get(v["exit"], v["exit"]), v["wall_s"]) for p, v in row.items())))
                sys.stdout.flush()
                return
            runs = m.get("checks", {})
            runs.update(row)
            m["checks"] = runs
            m["detected_by"] = sorted(p for p, v in runs.items() if v["exit"] == 1)
            m["caught_by_target_check"] = runs.get(target, {}).get("exit") == 1
            m["how_run"] = "patch applied to a scratch git worktree of /repo HEAD; `python3 check.py <ID> --tier quick` of a snapshot of /verif run against that worktree (tools/scratch.py); worktree reverted afterwards"
            save_meta(n, m)
            print("%-12s %s" % (n, "  ".join("%s:%s(%ss)" % (p, {0: "MISSED", 1: "caught", 2: "INFRA"}.get(v["exit"], v["exit"]), v["wall_s"]) for p, v in row.items())))
            sys.stdout.flush()

    scr.pool_map(sel, one, nworkers=nworkers)


def table():
    print("| seeded change | property | needs | caught by target check | also caught by |")
    print("|---|---|---|---|---|")
    for n in names():
        m = load_meta(n)
        det = m.get("detected_by", [])
        t = m.get("property")
        print("| %s | %s | %s | %s | %s |" % (n, t, m.get("needs", ""), "yes" if m.get("caught_by_target_check") else "NO", ", ".join(p for p in det if p != t)))


if __name__ == "__main__":
    a = sys.argv[1:]
    if not a:
        print(__doc__)
    elif a[0] == "import":
        rn = None
        rest = [x for x in a[1:] if not x.startswith("--")]
        for f in a[1:]:
            if f.startswith("--rename="):
                rn = dict(kv.split(":") for kv in f.split("=", 1)[1].split(","))
        do_import(rest[0], rest[1], rest[2] if len(rest) > 2 else None, rename=rn)
    elif a[0] == "verify":
        for n in (a[1:] or names()):
            verify(n)
    elif a[0] == "run":
        flags = [x for x in a[1:] if x.startswith("--")]
        sel = [x for x in a[1:] if not x.startswith("--")]
        props = None
        nw = 4
        for f in flags:
            if f.startswith("--props="):
                props = f.split("=", 1)[1].split(",")
            if f.startswith("--workers="):
                nw = int(f.split("=", 1)[1])
        sd = None
        for f in flags:
            if f.startswith("--seed="):
                sd = int(f.split("=", 1)[1])
        run_many(sel or names(), props=props, all_props="--all-props" in flags, nworkers=nw, seed=sd)
    elif a[0] == "table":
        table()
