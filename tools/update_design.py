#!/usr/bin/env python3
"""Fill the generated tables of DESIGN.md (between the BEGIN/END markers) from
mutants/last_run.json and seeded/*/meta.json."""
import json
import os
import subprocess
import sys

ROOT = os.path.dirname(os.path.dirname(os.path.abspath(__file__)))
sys.path.insert(0, os.path.join(ROOT, "tools"))


def between(s, tag, body):
    a = s.index("<!-- %s-BEGIN -->" % tag) + len("<!-- %s-BEGIN -->" % tag)
    b = s.index("<!-- %s-END -->" % tag)
    return s[:a] + "\n" + body + "\n" + s[b:]


def mutant_table():
    import mutants
    try:
        last = json.load(open(os.path.join(ROOT, "mutants", "last_run.json")))
    except Exception:
        last = {}
    rows = ["| mutant | what it does | expected | result (quick tier) |", "|---|---|---|---|"]
    for name, (props, edits, note) in mutants.M.items():
        r = last.get(name, {})
        if not r:
            res = "not run"
        elif r.get("compiles") is False:
            res = "does not compile"
        else:
            res = ", ".join("%s %s" % (p, {0: "MISSED", 1: "caught", 2: "infra"}.get(v[0], v[0])) for p, v in sorted(r.items()) if isinstance(v, list))
        rows.append("| `%s` | %s | %s | %s |" % (name, note.replace("|", "/"), ", ".join(props), res))
    return "\n".join(rows)


def seeded_table():
    d = os.path.join(ROOT, "seeded")
    rows = ["| change | file(s) | needs in order to manifest | target check | other checks that fire |", "|---|---|---|---|---|"]
    for n in sorted(os.listdir(d)):
        mp = os.path.join(d, n, "meta.json")
        if not os.path.exists(mp):
            continue
        m = json.load(open(mp))
        t = m.get("property")
        det = m.get("detected_by", [])
        files = sorted({l[6:].strip() for l in open(os.path.join(d, n, "patch.diff")) if l.startswith("+++ b/")})
        rows.append("| %s | %s | %s | %s | %s |" % (
            n, ", ".join("`%s`" % f.replace("src/", "") for f in files), m.get("needs", "").replace("|", "/"),
            ("**caught** by %s" % t) if m.get("caught_by_target_check") else "not caught by %s" % t,
            ", ".join(p for p in det if p != t) or "-"))
    return "\n".join(rows)


def main():
    p = os.path.join(ROOT, "DESIGN.md")
    s = open(p).read()
    s = between(s, "MUTANT-TABLE", mutant_table())
    s = between(s, "SEEDED-TABLE", seeded_table())
    open(p, "w").write(s)


if __name__ == "__main__":
    main()
