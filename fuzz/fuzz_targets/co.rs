#![no_main]
mod common;
use libfuzzer_sys::fuzz_target;

const PROPS: &[&str] = &["C13", "C14", "C15", "C02", "C03"];

fuzz_target!(|data: &[u8]| {
    common::one(PROPS, data);
});
