// Shared by the two libFuzzer targets: byte 0 selects the property profile,
// the rest is the engine's input (the same decoder as the proptest driver).
// The semantic oracles run inside the target: any violation aborts, so the
// saved input is a reproducer for `fcv replay`.

use fcv::driver::Engine;
use fcv::props::Tier;
use std::sync::{Arc, OnceLock};

static ENGINES: OnceLock<Vec<(&'static str, Arc<dyn Engine>)>> = OnceLock::new();

pub fn one(props: &'static [&'static str], data: &[u8]) {
    if data.is_empty() {
        return;
    }
    let engines = ENGINES.get_or_init(|| {
        // libfuzzer-sys turns every panic into an abort through the panic hook;
        // the harness injects panics on purpose (C02) and catches them.
        std::panic::set_hook(Box::new(|_| {}));
        // FCV_FUZZ_PROP=<ID>: a campaign for one property (its profile only,
        // and only its own oracles abort)
        let only = std::env::var("FCV_FUZZ_PROP").ok();
        props
            .iter()
            .filter(|p| only.as_deref().map(|o| o == **p).unwrap_or(true))
            .map(|p| (*p, fcv::engine_for(p, Tier::Quick).expect("engine").0))
            .collect()
    });
    if engines.is_empty() {
        eprintln!("FCV_FUZZ_PROP names a property this target does not serve");
        std::process::exit(2);
    }
    let single = engines.len() == 1;
    let (prop, e) = &engines[(data[0] as usize * engines.len()) >> 8];
    let ev = e.eval(&data[1..], false);
    if let Some(v) = ev.violations.iter().find(|v| !single || v.oracle.property() == *prop) {
        eprintln!("VIOLATION property={} (profile {}) {:?}: {}", v.oracle.property(), prop, v.oracle, v.msg);
        eprintln!("case: {}", ev.show);
        eprintln!("bytes: {}", fcv::driver::hex(&data[1..]));
        std::process::abort();
    }
}
