#![no_main]
mod common;
use libfuzzer_sys::fuzz_target;

const PROPS: &[&str] = &["C01", "C02", "C03", "C20", "C16", "C08", "C09", "C11", "C12", "C05", "C07", "C04", "C06", "C10", "C17", "C19"];

fuzz_target!(|data: &[u8]| {
    common::one(PROPS, data);
});
