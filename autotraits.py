#!/usr/bin/env python3
"""C18 - thread-safety auto traits are preserved (Send/Sync in => Send/Sync out).

Property-based testing with the compiler as the executor: the *inputs* are
generated programs. A grammar of type expressions over the crate's public
type constructors (array/vec/tuple join, try_join, race, race_ok, merge, zip,
chain, FutureGroup, StreamGroup, both Keyed views, both WaitUntil) is
instantiated over *type parameters* bounded `Future + Send` / `Stream + Send`
(`+ Sync` for the Sync obligations), one `fn ob_k<..>() { assert_send::<TYPE>() }`
per expression. rustc must accept every obligation; because the leaves are
parameters every accepted obligation is a statement for all child types.
The opaque `async fn` futures (for_each / try_for_each / collect over every
adapter stack of depth <= 3) are covered by generated generic functions that
build the pipeline over `S: Stream + Send` and assert the future is Send.

Stage A enumerates all depth-1 obligations (exhaustive over constructors x
containers x arities); stage B generates random nestings of depth 2..3 from
VERIF_SEED. A failing obligation is shrunk structurally (its sub-terms are
re-checked) and the minimal failing program becomes the replay file.

A negative control (a !Send leaf must make the obligation fail) guards against
a vacuous pass; if it compiles the run exits 2.
"""
import hashlib
import json
import os
import random
import re
import shutil
import subprocess
import sys
import time

ROOT = os.path.dirname(os.path.abspath(__file__))
WORK = os.path.join(ROOT, "autotraits_work")
EVID = os.path.join(ROOT, "evidence")
REPLAYS = os.path.join(ROOT, "replays")
REPO = "/repo"
if os.environ.get("FCV_REPO") and ROOT != "/verif":
    # sensitivity runs of a snapshot copy against a scratch repository (see check.py)
    REPO = os.environ["FCV_REPO"]

CONFIGS = {"std": '["std"]', "alloc": '["alloc"]'}

PRELUDE = """#![allow(dead_code, unused_variables, unused_imports, clippy::all)]
#![cfg_attr(not(feature = "cfg-std"), no_std)]
extern crate alloc;
use alloc::vec::Vec;
use core::cell::Cell;
use core::future::Future;
use core::num::NonZeroUsize;
use futures_core::Stream;
use futures_concurrency::future as fcf;
use futures_concurrency::stream as fcs;
use futures_concurrency::prelude::*;

fn assert_send<X: Send>() {}
fn assert_sync<X: Sync>() {}
fn assert_send_val<X: Send>(_: &X) {}
"""

NLEAF = 12


def generics(sync):
    # the Sync obligations bound children and outputs by Sync ALONE (the literal statement:
    # "Sync whenever they are Sync"); FCV_SYNC_WITH_SEND=1 gives the weaker Send + Sync leaves
    b = ("Send + Sync" if os.environ.get("FCV_SYNC_WITH_SEND") else "Sync") if sync else "Send"
    parts = []
    wh = []
    for i in range(NLEAF):
        parts += ["F%d" % i, "R%d" % i, "S%d" % i]
        wh.append("F%d: Future<Output = T> + %s" % (i, b))
        wh.append("R%d: Future<Output = Result<T, E>> + %s" % (i, b))
        wh.append("S%d: Stream<Item = T> + %s" % (i, b))
    parts += ["T", "E"]
    wh.append("T: %s" % b)
    # tuple race_ok is only implemented for error types that are Debug
    wh.append("E: %s + core::fmt::Debug" % b)
    return "<" + ", ".join(parts) + ">", "where " + ", ".join(wh)


GEN_SEND = generics(False)
GEN_SYNC = generics(True)


class Ty:
    """kind: 'F' future, 'R' future of Result<ok, E>, 'S' stream.
    out: canonical descriptor of the output / ok / item type (for grouping)."""
    __slots__ = ("kind", "text", "out", "depth", "desc", "kids", "arity")

    def __init__(self, kind, text, out, depth, desc, kids=(), arity=0):
        self.kind, self.text, self.out, self.depth, self.desc, self.kids, self.arity = kind, text, out, depth, desc, kids, arity

    def fout(self):
        """output type when used as a plain future"""
        return "Result<%s,E>" % self.out if self.kind == "R" else self.out


def leaf(kind, i):
    return Ty(kind, "%s%d" % (kind, i), "T", 0, "%s%d" % (kind, i))


def cont_text(container, kids):
    if container == "array":
        return "[%s; %d]" % (kids[0].text, len(kids)) if kids else "[F0; 0]"
    if container == "vec":
        return "Vec<%s>" % kids[0].text
    return "(" + "".join(k.text + ", " for k in kids) + ")"


def agg(container, outs, n):
    if container == "array":
        return "[%s;%d]" % (outs[0] if outs else "T", n)
    if container == "vec":
        return "Vec<%s>" % outs[0]
    return "(" + ",".join(outs) + ")"


def mk(op, container, kids, zero_kind="F"):
    """Build the type of `op` applied to a container of kids (projection form)."""
    n = len(kids)
    depth = 1 + max([k.depth for k in kids] or [0])
    desc = "%s/%s%d(%s)" % (op, container, n, ",".join(k.desc for k in kids))
    ct = cont_text(container, kids)
    if container == "array" and n == 0:
        ct = "[%s0; 0]" % ("S" if op in ("merge", "zip", "chain") else ("R" if op in ("try_join", "race_ok") else "F"))
    if op == "join":
        return Ty("F", "<%s as fcf::Join>::Future" % ct, agg(container, [k.fout() for k in kids], n), depth, desc, kids, n)
    if op == "race":
        k0 = kids[0]
        return Ty(k0.kind, "<%s as fcf::Race>::Future" % ct, k0.out, depth, desc, kids, n)
    if op == "try_join":
        return Ty("R", "<%s as fcf::TryJoin>::Future" % ct, agg(container, [k.out for k in kids], n), depth, desc, kids, n)
    if op == "race_ok":
        ok = kids[0].out if kids else "T"
        return Ty("F", "<%s as fcf::RaceOk>::Future" % ct, "Result<%s,Agg%s%d>" % (ok, container, n), depth, desc, kids, n)
    if op == "merge":
        return Ty("S", "<%s as fcs::Merge>::Stream" % ct, kids[0].out if kids else "T", depth, desc, kids, n)
    if op == "zip":
        return Ty("S", "<%s as fcs::Zip>::Stream" % ct, agg(container, [k.out for k in kids], n), depth, desc, kids, n)
    if op == "chain":
        return Ty("S", "<%s as fcs::Chain>::Stream" % ct, kids[0].out if kids else "T", depth, desc, kids, n)
    raise ValueError(op)


def mk_unary(op, kid, dl=None):
    depth = 1 + max(kid.depth, dl.depth if dl else 0)
    if op == "future_group":
        return Ty("S", "fcf::FutureGroup<%s>" % kid.text, kid.fout(), depth, "FutureGroup(%s)" % kid.desc, (kid,), 1)
    if op == "future_group_keyed":
        return Ty("S", "fcf::future_group::Keyed<%s>" % kid.text, "(Key,%s)" % kid.fout(), depth, "FutureGroup::Keyed(%s)" % kid.desc, (kid,), 1)
    if op == "stream_group":
        return Ty("S", "fcs::StreamGroup<%s>" % kid.text, kid.out, depth, "StreamGroup(%s)" % kid.desc, (kid,), 1)
    if op == "stream_group_keyed":
        return Ty("S", "fcs::stream_group::Keyed<%s>" % kid.text, "(Key,%s)" % kid.out, depth, "StreamGroup::Keyed(%s)" % kid.desc, (kid,), 1)
    if op == "wait_until_f":
        return Ty(kid.kind, "fcf::WaitUntil<%s, %s>" % (kid.text, dl.text), kid.out, depth, "WaitUntil(%s,%s)" % (kid.desc, dl.desc), (kid, dl), 2)
    if op == "wait_until_s":
        return Ty("S", "fcs::WaitUntil<%s, %s>" % (kid.text, dl.text), kid.out, depth, "WaitUntilStream(%s,%s)" % (kid.desc, dl.desc), (kid, dl), 2)
    raise ValueError(op)


# what each n-ary op wants from its children
OPS = {
    "join": dict(kinds="FR", same_out=False, min0=("array", "vec", "tuple")),
    "race": dict(kinds="FR", same_out=True, min0=()),
    "try_join": dict(kinds="R", same_out=False, min0=("array", "vec", "tuple")),
    "race_ok": dict(kinds="R", same_out=True, min0=("array", "vec")),
    "merge": dict(kinds="S", same_out=True, min0=("array", "vec", "tuple")),
    "zip": dict(kinds="S", same_out=False, min0=()),
    "chain": dict(kinds="S", same_out=True, min0=("array", "vec")),
}
ARRAY_NS = [1, 2, 3, 5, 12]

# direct public names (depth 1 only): (module, Name, generic-args builder)
def direct_names(alloc_only_ok=True):
    out = []
    for n in ARRAY_NS:
        out.append(("futures_concurrency::array::Join<F0, %d>" % n, "array::Join<F,%d>" % n, n))
        out.append(("futures_concurrency::array::Race<F0, %d>" % n, "array::Race<F,%d>" % n, n))
        out.append(("futures_concurrency::array::TryJoin<R0, T, E, %d>" % n, "array::TryJoin<R,T,E,%d>" % n, n))
        out.append(("futures_concurrency::array::RaceOk<R0, T, E, %d>" % n, "array::RaceOk<R,T,E,%d>" % n, n))
        out.append(("futures_concurrency::array::Merge<S0, %d>" % n, "array::Merge<S,%d>" % n, n))
        out.append(("futures_concurrency::array::Zip<S0, %d>" % n, "array::Zip<S,%d>" % n, n))
        out.append(("futures_concurrency::array::Chain<S0, %d>" % n, "array::Chain<S,%d>" % n, n))
        out.append(("futures_concurrency::array::AggregateError<E, %d>" % n, "array::AggregateError<E,%d>" % n, n))
    out.append(("futures_concurrency::vec::Join<F0>", "vec::Join<F>", 1))
    out.append(("futures_concurrency::vec::Race<F0>", "vec::Race<F>", 1))
    out.append(("futures_concurrency::vec::TryJoin<R0, T, E>", "vec::TryJoin<R,T,E>", 1))
    out.append(("futures_concurrency::vec::RaceOk<R0, T, E>", "vec::RaceOk<R,T,E>", 1))
    out.append(("futures_concurrency::vec::Merge<S0>", "vec::Merge<S>", 1))
    out.append(("futures_concurrency::vec::Zip<S0>", "vec::Zip<S>", 1))
    out.append(("futures_concurrency::vec::Chain<S0>", "vec::Chain<S>", 1))
    out.append(("futures_concurrency::vec::AggregateError<E>", "vec::AggregateError<E>", 1))
    return out


def stage_a():
    """All depth-1 obligations."""
    obs = []
    L = {k: [leaf(k, i) for i in range(NLEAF)] for k in "FRS"}
    for op, spec in OPS.items():
        kinds = spec["kinds"]
        for kind in kinds:
            for n in ARRAY_NS:
                obs.append(mk(op, "array", [L[kind][0]] * n))
            obs.append(mk(op, "vec", [L[kind][0]]))
            for n in range(1, 13):
                obs.append(mk(op, "tuple", L[kind][:n]))
        for c in spec["min0"]:
            if c == "vec":
                continue
            obs.append(mk(op, c, []))
    for kind in "FR":
        obs.append(mk_unary("future_group", L[kind][0]))
        obs.append(mk_unary("future_group_keyed", L[kind][0]))
        obs.append(mk_unary("wait_until_f", L[kind][0], L["F"][1]))
    obs.append(mk_unary("stream_group", L["S"][0]))
    obs.append(mk_unary("stream_group_keyed", L["S"][0]))
    obs.append(mk_unary("wait_until_s", L["S"][0], L["F"][1]))
    direct = [Ty("X", t, "", 1, d, (), n) for (t, d, n) in direct_names()]
    return obs, direct


def gen_nested(rng, depth, kind=None):
    """A random expression of exactly the given depth (>= 1) and, if given, kind."""
    for _ in range(50):
        t = gen_any(rng, depth)
        if kind is None or t.kind == kind or (kind == "F" and t.kind == "R"):
            return t
    # fall back to something of the right kind
    if kind == "S":
        return mk("merge", "vec", [leaf("S", 0)])
    if kind == "R":
        return mk("try_join", "vec", [leaf("R", 0)])
    return mk("join", "vec", [leaf("F", 0)])


def gen_child(rng, depth, kind):
    if depth <= 0 or rng.random() < 0.25:
        return leaf(kind, rng.randrange(NLEAF))
    return gen_nested(rng, depth, kind)


def gen_any(rng, depth):
    r = rng.random()
    if r < 0.80:
        op = rng.choice(list(OPS))
        spec = OPS[op]
        kind = rng.choice(spec["kinds"])
        container = rng.choice(["array", "vec", "tuple"])
        if container == "array":
            n = rng.choice(ARRAY_NS)
        elif container == "vec":
            n = 1
        else:
            n = rng.choice([1, 2, 2, 3, 3, 4, 5, 6, 8, 12])
        first = gen_child(rng, depth - 1, kind) if depth > 1 else leaf(kind, rng.randrange(NLEAF))
        if depth > 1 and first.depth < depth - 1:
            first = gen_nested(rng, depth - 1, kind)
        if container in ("array", "vec"):
            kids = [first] * n
        else:
            kids = [first]
            for _ in range(n - 1):
                if spec["same_out"]:
                    # same output type: the same expression, or a leaf when the output is T
                    cands = [first]
                    if first.out == "T" and first.kind == kind:
                        cands.append(leaf(kind, rng.randrange(NLEAF)))
                    c = rng.choice(cands)
                    if c.kind != first.kind:
                        c = first
                    kids.append(c)
                else:
                    kids.append(gen_child(rng, depth - 1, kind))
            rng.shuffle(kids)
        if op in ("try_join", "race_ok") and any(k.kind != "R" for k in kids):
            kids = [k if k.kind == "R" else leaf("R", rng.randrange(NLEAF)) for k in kids]
            if spec["same_out"] and len({k.out for k in kids}) > 1:
                kids = [kids[0]] * len(kids)
        if op == "race" and len({(k.kind, k.out) for k in kids}) > 1:
            kids = [kids[0]] * len(kids)
        if op in ("merge", "chain") and len({k.out for k in kids}) > 1:
            kids = [kids[0]] * len(kids)
        return mk(op, container, kids)
    if r < 0.90:
        kid = gen_child(rng, depth - 1, rng.choice("FR"))
        return mk_unary(rng.choice(["future_group", "future_group_keyed"]), kid)
    if r < 0.96:
        kid = gen_child(rng, depth - 1, "S")
        return mk_unary(rng.choice(["stream_group", "stream_group_keyed"]), kid)
    if rng.random() < 0.5:
        return mk_unary("wait_until_f", gen_child(rng, depth - 1, rng.choice("FR")), gen_child(rng, depth - 1, "F"))
    return mk_unary("wait_until_s", gen_child(rng, depth - 1, "S"), gen_child(rng, depth - 1, "F"))


# ---------------------------------------------------------------- concurrent streams
# Closures are Send but deliberately NOT Sync (they own a Cell): the property
# promises a Send future for Send closures, nothing more is assumed.
ADAPTERS = {
    "map": ".map({ let c = Cell::new(0u32); move |x| { c.set(c.get() + 1); async move { x } } })",
    "enumerate": ".enumerate()",
    "take": ".take(3)",
    "limit": ".limit(NonZeroUsize::new(2))",
}
TERMINALS = {
    "for_each": ".for_each({ let c = Cell::new(0u32); move |x| { c.set(c.get() + 1); async move { drop(x) } } })",
    "try_for_each": ".try_for_each({ let c = Cell::new(0u32); move |x| { c.set(c.get() + 1); async move { drop(x); Ok::<(), E>(()) } } })",
    "collect": ".collect::<Vec<_>>()",
}


def co_stacks():
    names = list(ADAPTERS)
    out = [()]
    for a in names:
        out.append((a,))
    for a in names:
        for b in names:
            out.append((a, b))
    for a in names:
        for b in names:
            for c in names:
                out.append((a, b, c))
    return out


def co_fn(k, source, stack, term):
    src = "s.co()" if source == "stream" else "v.into_co_stream()"
    body = src + "".join(ADAPTERS[a] for a in stack) + TERMINALS[term]
    sig = ("fn co_%d<S: Stream<Item = T> + Send, T: Send, E: Send>(s: S)" % k) if source == "stream" else ("fn co_%d<T: Send, E: Send>(v: Vec<T>)" % k)
    return "%s {\n    let fut = %s;\n    assert_send_val(&fut);\n}\n" % (sig, body)


# ---------------------------------------------------------------- programs
class Ob:
    def __init__(self, ident, kind, text, desc, nontrivial, code):
        self.ident, self.kind, self.text, self.desc, self.nontrivial, self.code = ident, kind, text, desc, nontrivial, code
        self.lines = (0, 0)


def ob_for_type(k, t, sync):
    g, w = GEN_SYNC if sync else GEN_SEND
    which = "sync" if sync else "send"
    code = "fn ob_%d%s()\n%s\n{\n    assert_%s::<%s>();\n}\n" % (k, g, w, which, t.text)
    nontrivial = t.depth >= 2 or t.arity >= 4
    return Ob("ob_%d" % k, which, t.text, "%s: %s" % (which.capitalize(), t.desc), nontrivial, code)


def render(obs):
    src = PRELUDE
    line = src.count("\n") + 1
    for o in obs:
        n = o.code.count("\n")
        o.lines = (line, line + n - 1)
        src += o.code
        line += n
    return src


def crate_dir(cfg):
    return os.path.join(WORK, cfg)


def prepare(cfg):
    d = crate_dir(cfg)
    os.makedirs(os.path.join(d, "src"), exist_ok=True)
    feats = "cfg-std" if cfg == "std" else "cfg-alloc"
    toml = """[package]
name = "fcv-autotraits"
version = "0.1.0"
edition = "2021"
publish = false

[workspace]

[features]
default = ["%s"]
cfg-std = []
cfg-alloc = []

[dependencies]
futures-concurrency = { path = "%s", default-features = false, features = %s }
futures-core = { version = "0.3", default-features = false }
""" % (feats, REPO, CONFIGS[cfg])
    p = os.path.join(d, "Cargo.toml")
    if not os.path.exists(p) or open(p).read() != toml:
        with open(p, "w") as f:
            f.write(toml)
    lock = os.path.join(d, "Cargo.lock")
    if not os.path.exists(lock):
        # the harness lock file (committed) pins a superset of what this crate needs
        for cand in (os.path.join(ROOT, "harness", "Cargo.lock"), os.path.join(REPO, "Cargo.lock")):
            if os.path.exists(cand):
                shutil.copy(cand, lock)
                break
    return d


def env():
    e = dict(os.environ)
    e["CARGO_NET_OFFLINE"] = "true"
    e["CARGO_TERM_COLOR"] = "never"
    return e


ERR_RE = re.compile(r"^src/lib\.rs:(\d+):\d+: error(\[E\d+\])?: (.*)$")


def cargo_check(cfg, src):
    """Type-check one generated program. Returns (ok, [(line, msg)], raw)."""
    d = prepare(cfg)
    with open(os.path.join(d, "src", "lib.rs"), "w") as f:
        f.write(src)
    p = subprocess.run(["cargo", "check", "--offline", "--message-format=short", "--manifest-path", os.path.join(d, "Cargo.toml")],
                       env=env(), cwd=d, stdout=subprocess.PIPE, stderr=subprocess.STDOUT, text=True)
    errs = []
    for line in p.stdout.splitlines():
        m = ERR_RE.match(line.strip())
        if m:
            errs.append((int(m.group(1)), m.group(3)))
    return p.returncode == 0, errs, p.stdout


def failing(obs, errs):
    bad = []
    for o in obs:
        msgs = [m for (l, m) in errs if o.lines[0] <= l <= o.lines[1]]
        if msgs:
            bad.append((o, msgs))
    return bad


def subterms(t):
    out = []
    for k in t.kids:
        if k.depth >= 1:
            out.append(k)
            out += subterms(k)
    return out


def shrink(cfg, t, sync):
    """Structural shrinking: the smallest sub-terms of a failing type that fail
    on their own."""
    cur = t
    for _ in range(4):
        subs = subterms(cur)
        if not subs:
            break
        obs = [ob_for_type(i, s, sync) for i, s in enumerate(subs)]
        ok, errs, raw = cargo_check(cfg, render(obs))
        if ok:
            break
        bad = failing(obs, errs)
        if not bad:
            break
        # smallest failing sub-term
        idx = min(range(len(bad)), key=lambda i: (subs[obs.index(bad[i][0])].depth, len(bad[i][0].text)))
        cur = subs[obs.index(bad[idx][0])]
    return cur


def write_replay(cfg, o, msgs):
    os.makedirs(REPLAYS, exist_ok=True)
    code = o.code
    code = re.sub(r"fn (ob|co)_\d+", r"fn \1_0", code)
    src = PRELUDE + code
    h = hashlib.sha1((cfg + src).encode()).hexdigest()[:16]
    path = os.path.join(REPLAYS, "C18-%s-%s.json" % (cfg, h))
    with open(path, "w") as f:
        json.dump({"property": "C18", "engine": "autotraits", "config": cfg, "obligation": o.desc, "type": o.text,
                   "rustc": msgs[:3], "program": src}, f, indent=1)
        f.write("\n")
    return path


def replay(path):
    with open(path) as f:
        r = json.load(f)
    cfg = r.get("config", "std")
    ok, errs, raw = cargo_check(cfg, r["program"])
    if ok:
        print("no violation of C18 on this tree: the obligation type-checks (%s)" % r.get("obligation"))
        return 0
    if not errs:
        sys.stdout.write(raw[-3000:])
        print("INFRA: cargo check failed without a rustc error in the generated program")
        return 2
    print("obligation does not hold: %s" % r.get("obligation"))
    for l, m in errs[:3]:
        print("  rustc: %s" % m)
    print("VIOLATION property=C18 replay=%s" % path)
    return 1


NEG_CONTROL = """
fn neg_control() {
    assert_send::<futures_concurrency::array::Join<core::future::Ready<alloc::rc::Rc<u8>>, 3>>();
}
"""


def main(tier, seed):
    t0 = time.time()
    rng = random.Random(seed)
    a_obs, a_direct = stage_a()
    nbatches = 1 if tier == "quick" else 12
    per_batch = 260
    co_all = [(s, st, t) for s in ("stream", "vec") for st in co_stacks() for t in TERMINALS]
    violations = []
    known = []
    total = 0
    distinct_nt = set()
    samples = []
    per_cfg = {}
    infra = False
    for cfg in CONFIGS:
        c0 = time.time()
        # negative control: a !Send leaf must be rejected
        ok, errs, raw = cargo_check(cfg, PRELUDE + NEG_CONTROL)
        if ok or not errs:
            if ok:
                print("INFRA: the negative control type-checks (Join<Ready<Rc<u8>>, 3>: Send) - the check would be vacuous")
            else:
                sys.stdout.write(raw[-3000:])
                print("INFRA: the obligation crate does not build against /repo in configuration %s" % cfg)
            if cfg == "std":
                return 2
            per_cfg[cfg] = {"skipped": "does not build"}
            infra = True
            continue
        progs = []
        # stage A: exhaustive depth 1, Send and Sync, projection and direct names
        k = 0
        obs = []
        for t in a_obs + a_direct:
            for sync in (False, True):
                obs.append(ob_for_type(k, t, sync))
                obs[-1].ty = t
                obs[-1].sync = sync
                k += 1
        progs.append(("stage A (all depth-1 constructors x containers x arities, Send and Sync)", obs))
        # concurrent-stream terminal futures
        if tier == "quick":
            co_sel = [c for c in co_all if len(c[1]) <= 2] + rng.sample([c for c in co_all if len(c[1]) == 3], 60)
        else:
            co_sel = co_all
        cobs = []
        for i, (s, st, t) in enumerate(co_sel):
            code = co_fn(i, s, st, t)
            o = Ob("co_%d" % i, "send", code, "Send: %s%s.%s future" % ("stream.co()" if s == "stream" else "vec.into_co_stream()", "".join("." + a for a in st), t), len(st) >= 2, code)
            o.ty = None
            cobs.append(o)
        progs.append(("concurrent-stream terminal futures over adapter stacks", cobs))
        # stage B: random nestings
        for b in range(nbatches):
            obs = []
            for i in range(per_batch):
                depth = 2 if rng.random() < 0.6 else 3
                t = gen_nested(rng, depth)
                sync = rng.random() < 0.4
                o = ob_for_type(i, t, sync)
                o.ty = t
                o.sync = sync
                obs.append(o)
            progs.append(("stage B batch %d (random nestings of depth 2-3)" % b, obs))
        n_cfg = 0
        for name, obs in progs:
            ok, errs, raw = cargo_check(cfg, render(obs))
            n_cfg += len(obs)
            for o in obs:
                if o.nontrivial:
                    distinct_nt.add((cfg, o.kind, o.text))
            if len(samples) < 8 and obs:
                o = obs[rng.randrange(len(obs))]
                samples.append({"config": cfg, "obligation": o.desc, "rust": (o.text if o.ty is not None else o.code)[:600]})
            if ok:
                continue
            bad = failing(obs, errs)
            if not bad:
                sys.stdout.write(raw[-3000:])
                print("INFRA: cargo check failed on a generated program without an error inside an obligation (%s, %s)" % (cfg, name))
                infra = True
                continue
            # report the first failing obligation, shrunk
            o, msgs = bad[0]
            if getattr(o, "ty", None) is not None:
                small = shrink(cfg, o.ty, o.sync)
                o2 = ob_for_type(0, small, o.sync)
                # confirm the shrunk obligation fails alone
                ok2, errs2, _ = cargo_check(cfg, render([o2]))
                if not ok2 and errs2:
                    o, msgs = o2, [m for (_, m) in errs2]
            path = write_replay(cfg, o, msgs)
            violations.append((cfg, o.desc, msgs[0] if msgs else "", path, len(bad)))
            break
        total += n_cfg
        per_cfg[cfg] = {"obligations": n_cfg, "programs": len(progs), "wall_s": round(time.time() - c0, 1)}
    wall = time.time() - t0
    os.makedirs(EVID, exist_ok=True)
    ev = {
        "property_id": "C18",
        "tier": tier,
        "seed": seed,
        "level": "exploration",
        "coverage": {
            "evaluations": total,
            "distinct_nontrivial": len(distinct_nt),
            "rule": "generated programs: one generic obligation `fn ob<F: Future + Send (resp. F: Future + Sync), ..>() { assert_send/assert_sync::<TYPE>() }` per type expression over the crate's public constructors (stage A: every constructor x container x array length {1,2,3,5,12} / Vec / tuple arity 0..12, projection form and direct public names; stage B: random nestings of depth 2-3 from VERIF_SEED), plus one generic function per (source, adapter stack of depth <= 3, terminal) asserting that the opaque for_each / try_for_each / collect future is Send; each must type-check with cargo check against /repo; non-trivial = nesting depth >= 2, or arity >= 4, or an adapter stack of depth >= 2; distinct = distinct (configuration, trait, type text)",
            "samples": samples,
            "per_config": per_cfg,
            "negative_control": "array::Join<Ready<Rc<u8>>, 3>: Send is rejected by rustc in every configuration checked",
            "exhaustive": False,
        },
        "assumptions": [
            "auto traits are structural, so an obligation over type parameters bounded Send (resp. Sync) that rustc accepts holds for every instantiation; sampling is only over constructors, arities and nestings",
            "the Sync obligations bound children and outputs by Sync alone (not Send + Sync), the Send obligations by Send alone",
            "rustc's trait solver is trusted",
        ],
        "wall_s": round(wall, 3),
        "violations": len(violations),
    }
    with open(os.path.join(EVID, "C18.json"), "w") as f:
        json.dump(ev, f, indent=1)
        f.write("\n")
    for cfg, desc, msg, path, nbad in violations:
        print("  [%s] obligation rejected by rustc: %s" % (cfg, desc))
        print("  rustc: %s" % msg)
        print("  (%d obligations of that program fail; the first one, shrunk, is the replay)" % nbad)
        print("VIOLATION property=C18 replay=%s" % path)
    if violations:
        return 1
    if infra or total == 0:
        return 2
    print("C18 %s: %d generated obligations type-check (%d distinct non-trivial) in %s, %.1fs"
          % (tier, total, len(distinct_nt), "+".join(c for c in per_cfg if "obligations" in per_cfg[c]), wall))
    return 0


def setup():
    rc = 0
    for cfg in CONFIGS:
        t0 = time.time()
        ok, errs, raw = cargo_check(cfg, PRELUDE)
        print("setup: autotraits[%s] %s in %.0fs" % (cfg, "checked" if ok else "FAILED", time.time() - t0))
        if not ok:
            sys.stdout.write(raw[-2000:])
            rc = 2
    return rc


if __name__ == "__main__":
    sys.exit(main(sys.argv[1] if len(sys.argv) > 1 else "quick", int(os.environ.get("VERIF_SEED", "20260929"))))
