#!/usr/bin/env python3
"""Driver for the futures-concurrency property checks.

  python3 check.py --setup
  python3 check.py <ID> --tier quick|thorough
  python3 check.py <ID> --replay <path>

Exit 0: the property held on everything explored.
Exit 1: a violation that is not a listed known finding (prints
        "VIOLATION property=<ID> replay=<path>").
Exit 2: infrastructure problem (harness does not build, hang watchdog,
        negative control of C18 did not fail) - never a verdict.
"""
import json
import os
import subprocess
import sys
import time

ROOT = os.path.dirname(os.path.abspath(__file__))
HARNESS = os.path.join(ROOT, "harness")
EVID = os.path.join(ROOT, "evidence")
REPLAYS = os.path.join(ROOT, "replays")
KNOWN = os.path.join(ROOT, "known_findings.json")
REPO = "/repo"

# Sensitivity runs (tools/scratch.py, used by tools/mutants.py and
# tools/seeded.py) run a *snapshot copy* of this directory against a scratch
# copy of the repository, so that neither /repo nor /verif/evidence is
# touched: the snapshot lives outside /verif, FCV_REPO names the repository
# copy, and the snapshot's harness manifest is pointed at it. The registered
# commands never set FCV_REPO, and /verif itself is never rewritten.
if os.environ.get("FCV_REPO") and ROOT != "/verif":
    REPO = os.environ["FCV_REPO"]
    _tp = os.path.join(HARNESS, "Cargo.toml")
    _t = open(_tp).read()
    import re as _re
    _t2 = _re.sub(r'futures-concurrency = \{ path = "[^"]*"', 'futures-concurrency = { path = "%s"' % REPO, _t)
    if _t2 != _t:
        open(_tp, "w").write(_t2)

CONFIGS = {
    "std": ["--no-default-features", "--features", "cfg-std"],
    "alloc": ["--no-default-features", "--features", "cfg-alloc"],
    "nostd": ["--no-default-features", "--features", "cfg-nostd"],
    # std once more without debug assertions / overflow checks (cargo profile `rel`)
    "stdrel": ["--no-default-features", "--features", "cfg-std"],
}

ALL3 = ["std", "alloc", "nostd", "stdrel"]
PROP_CONFIGS = {
    "C01": ALL3, "C02": ALL3, "C03": ALL3, "C04": ALL3, "C05": ALL3, "C06": ALL3,
    "C07": ALL3, "C08": ALL3, "C09": ALL3, "C10": ALL3, "C17": ALL3, "C19": ALL3,
    "C20": ALL3,
    "C11": ["std", "alloc", "stdrel"], "C12": ["std", "alloc", "stdrel"], "C13": ["std", "alloc"],
    "C14": ["std", "alloc"], "C15": ["std", "alloc"],
    "C16": ["std", "stdrel"],
    "C18": ["std", "alloc"],
}

ASSUMPTIONS = {
    "_all": [
        "the scripted children honour the Future/Stream contracts and the harness executor honours the caller side (no poll after Ready/None, in particular never a poll of the combinator after its own final result)",
        "wake-ups from other threads: the scripted schedules fire wakers between polls, inside a child's poll and from joined helper threads; truly simultaneous wake-ups (helper threads invoking wakers while the task thread polls, mutates a group or drops the combinator) are explored only by the storm phase of the std configurations, whose interleavings are chosen by the OS scheduler, not enumerated",
    ],
    "_comb": [
        "generated search: bounded sizes (tuples <= 12, Vec <= 12 and now and then / in the thorough tier often the boundary lengths 22..24, 63..66, 100, 128, 129, 200; scripts <= 10 steps, schedules <= 40 actions, nesting depth 1, group histories <= 40 / 120 operations)",
    ],
    "_co": [
        "generated search: source length <= 12, adapter stacks of depth <= 3, take(n) with n <= len + 2 or huge, closure-future scripts <= 4 steps, schedules <= 30 actions",
        "an error counts as observed by the consumer at the moment the failing future answers (futures only answer when the consumer polls them)",
    ],
}


def env():
    e = dict(os.environ)
    e["CARGO_NET_OFFLINE"] = "true"
    e.setdefault("CARGO_TERM_COLOR", "never")
    return e


# A "build" is a feature configuration of /repo plus the engine flavour:
# "std", "alloc", "nostd" = the combinator/group binary; "std+co", "alloc+co" =
# the concurrent-stream binary (profile `co`, feature `with-co`).
def split(build_name):
    cfg, _, co = build_name.partition("+")
    return cfg, co == "co"


def target_dir(b):
    cfg, co = split(b)
    return os.path.join(HARNESS, "target-" + cfg + ("-co" if co else ""))


def binary(b):
    cfg, co = split(b)
    return os.path.join(target_dir(b), "co" if co else ("rel" if cfg == "stdrel" else "debug"), "fcv")


def builds_for(prop):
    cfgs = PROP_CONFIGS[prop]
    if prop in ("C13", "C14", "C15"):
        return [c + "+co" for c in cfgs]
    if prop in ("C02", "C03"):
        return list(cfgs) + [c + "+co" for c in cfgs if c not in ("nostd", "stdrel")]
    return list(cfgs)


def build(b, quiet=True):
    """(Re)build the harness for one feature configuration of /repo.
    cargo's fingerprinting makes this a no-op when nothing changed."""
    cfg, co = split(b)
    lock = os.path.join(HARNESS, "Cargo.lock")
    if not os.path.exists(lock):
        subprocess.run(["cp", os.path.join(REPO, "Cargo.lock"), lock], check=False)
    flags = list(CONFIGS[cfg])
    if cfg == "stdrel":
        flags = ["--profile", "rel"] + flags
    if co:
        flags[-1] = flags[-1] + ",with-co"
        flags = ["--profile", "co"] + flags
    cmd = ["cargo", "build", "--manifest-path", os.path.join(HARNESS, "Cargo.toml"),
           "--target-dir", target_dir(b)] + flags
    p = subprocess.run(cmd, env=env(), stdout=subprocess.PIPE, stderr=subprocess.STDOUT, text=True)
    if p.returncode != 0:
        if not quiet:
            sys.stdout.write(p.stdout)
        return False, p.stdout
    return True, ""


def load_known():
    try:
        with open(KNOWN) as f:
            return json.load(f).get("findings", [])
    except FileNotFoundError:
        return []


def known_match(prop, messages, case):
    """An open known finding matches when every string of its `match` list
    occurs in one violation message (or the case description)."""
    for k in load_known():
        if k.get("status") != "open" or k.get("property") != prop:
            continue
        for m in messages:
            hay = m + " :: " + (case or "")
            if all(x in hay for x in k.get("match", [])):
                return k
    return None


def write_evidence(prop, tier, seed, frags, wall, violations, extra=None, level="exploration"):
    os.makedirs(EVID, exist_ok=True)
    cov = {
        "evaluations": sum(f.get("evaluations", 0) for f in frags),
        "distinct_nontrivial": sum(f.get("distinct_nontrivial", 0) for f in frags),
        "nontrivial_evaluations": sum(f.get("nontrivial_evaluations", 0) for f in frags),
        "rule": (frags[0].get("rule", "") if frags else ""),
        "samples": [s for f in frags for s in f.get("samples", [])][:8],
        "per_config": {
            f.get("config", "?") + ("/co" if f.get("engine") == "co" and prop in ("C02", "C03") else ""): {
                "evaluations": f.get("evaluations", 0),
                "distinct_nontrivial": f.get("distinct_nontrivial", 0),
                "labels": f.get("labels", {}),
                "inconclusive": f.get("inconclusive", {}),
                "other_property_signals": f.get("other_property_signals", {}),
                "wall_s": f.get("wall_s", 0),
                "engine": f.get("engine", ""),
            }
            for f in frags
        },
        "exhaustive": False,
    }
    if extra:
        cov.update(extra)
    ev = {
        "property_id": prop,
        "tier": tier,
        "seed": seed,
        "level": level,
        "coverage": cov,
        "assumptions": ASSUMPTIONS["_all"] + ASSUMPTIONS["_co" if prop in ("C13", "C14", "C15") else "_comb"] + (ASSUMPTIONS["_co"] if prop in ("C02", "C03") else []),
        "wall_s": round(wall, 3),
        "violations": violations,
    }
    with open(os.path.join(EVID, prop + ".json"), "w") as f:
        json.dump(ev, f, indent=1)
        f.write("\n")


def run_engine(prop, tier, seed, extra_args=None):
    """Run the harness binary for every configuration the property
    quantifies over. Returns (exit_code)."""
    t0 = time.time()
    frags = []
    skipped = {}
    violations = 0
    known_lines = []
    viol_lines = []
    infra = False
    for cfg in builds_for(prop):
        ok, log = build(cfg)
        if not ok:
            if cfg in ("std", "std+co"):
                sys.stdout.write(log[-4000:])
                print("INFRA: the harness does not build against /repo in the std configuration")
                return 2
            skipped[cfg] = "harness does not build in this configuration: " + log[-300:]
            continue
        frag_path = os.path.join(EVID, ".frag-%s-%s.json" % (prop, cfg))
        os.makedirs(EVID, exist_ok=True)
        if os.path.exists(frag_path):
            os.remove(frag_path)
        cmd = [binary(cfg), "run", "--prop", prop, "--tier", tier, "--seed", str(seed),
               "--threads", os.environ.get("FCV_THREADS", str(os.cpu_count() or 16)), "--replay-dir", REPLAYS, "--out", frag_path,
               "--hang-secs", os.environ.get("FCV_HANG_SECS", "120")]
        # saved inputs (the committed corpus of this property and engine): run before the generated cases
        corpus_file = os.path.join(ROOT, "corpus", "%s.%s.txt" % (prop, "co" if cfg.endswith("+co") else "comb"))
        if os.path.exists(corpus_file) and os.environ.get("FCV_NO_CORPUS") != "1":
            cmd += ["--corpus", corpus_file]
        if extra_args:
            cmd += extra_args
        if os.environ.get("FCV_CASES"):
            # debugging aid (smaller or larger budget); the registered commands never set it
            cmd += ["--cases", os.environ["FCV_CASES"]]
        p = subprocess.run(cmd, env=env(), stdout=subprocess.PIPE, stderr=subprocess.STDOUT, text=True)
        out = p.stdout
        frag = None
        if os.path.exists(frag_path):
            try:
                with open(frag_path) as f:
                    frag = json.load(f)
            except Exception:
                frag = None
            os.remove(frag_path)
        if frag:
            frags.append(frag)
        if p.returncode == 1:
            msgs = frag.get("violation_messages", []) if frag else []
            case = ""
            for line in out.splitlines():
                if line.strip().startswith("case:"):
                    case = line.strip()
            k = known_match(prop, msgs, case)
            if k:
                known_lines.append("KNOWN-FINDING: property=%s %s" % (prop, k.get("what", "")))
            else:
                violations += 1
                sys.stdout.write(out)
                for line in out.splitlines():
                    if line.startswith("VIOLATION "):
                        viol_lines.append(line)
        elif p.returncode == 3 or p.returncode < 0:
            # the harness process was killed by a fatal signal while executing
            # a case: undefined behaviour reached through the safe public API
            path = crash_replay(prop, cfg)
            if path:
                violations += 1
                print("  the harness process was killed (fatal signal or abort: memory-unsafe behaviour reached through the safe "
                      "API, or an allocation failure inside the library) while executing a generated case; replaying that case alone dies again")
                line = "VIOLATION property=%s replay=%s" % (prop, path)
                print(line)
                viol_lines.append(line)
                frags.append({"config": cfg, "engine": "comb", "evaluations": 0, "distinct_nontrivial": 0,
                              "crashed": True, "rule": ""})
            else:
                sys.stdout.write(out)
                print("INFRA: harness crashed (status %d) in configuration %s and the crash did not reproduce from the published case" % (p.returncode, cfg))
                infra = True
        elif p.returncode == 2 and prop in ("C01", "C11", "C12") and "HANG property=" in out and confirm_hang(prop, cfg, out):
            # C01: "no invocation of any waker ever handed out ... deadlocks"; C11 / C12: "across any
            # interleaving of insert, remove, reserve, extend, polling and child wake-ups" the group
            # yields every output. A case on which a call into the library never returns, reproduced
            # in isolation, is that violation.
            path = [l.split("replay=", 1)[1].strip() for l in out.splitlines() if l.startswith("HANG property=")][0]
            violations += 1
            print("  a generated case made the library block forever (a poll, a drop or a waker invocation never returned); "
                  "replaying that case alone blocks again: deadlock")
            line = "VIOLATION property=%s replay=%s" % (prop, path)
            print(line)
            viol_lines.append(line)
            frags.append({"config": cfg_label(cfg), "engine": "comb", "evaluations": 0, "distinct_nontrivial": 0, "hung": True, "rule": ""})
        elif p.returncode != 0:
            sys.stdout.write(out)
            print("INFRA: harness exited with status %d in configuration %s" % (p.returncode, cfg))
            infra = True
    extra = {}
    if tier == "thorough" and not violations and os.environ.get("FCV_NO_FUZZ") != "1":
        info, rp = fuzz_supplement(prop, seed)
        if info:
            extra["libfuzzer_supplement"] = info
        if rp:
            # confirm with the ordinary replay path (oracles outside libFuzzer)
            rc = replay(prop, rp)
            if rc == 1:
                violations += 1
                viol_lines.append("VIOLATION property=%s replay=%s" % (prop, rp))
            else:
                extra["libfuzzer_supplement"]["note"] = "libFuzzer reported a crash that the replay did not confirm (exit %d); not counted" % rc
    if tier == "thorough" and prop == "C02" and not violations and os.environ.get("FCV_NO_MIRI") != "1":
        info, rp = miri_supplement(prop, seed)
        extra["miri_supplement"] = info
        if rp:
            violations += 1
            print("  Miri reported undefined behaviour (or the harness oracle failed) while executing a generated case: %s" % "; ".join(info.get("miri_error", [])))
            print("VIOLATION property=%s replay=%s" % (prop, rp))
    wall = time.time() - t0
    if skipped:
        extra["skipped_configurations"] = skipped
    if frags:
        write_evidence(prop, tier, seed, frags, wall, violations, extra)
    for l in sorted(set(known_lines)):
        print(l)
    if violations:
        return 1
    if infra or not frags:
        return 2
    tot = sum(f.get("evaluations", 0) for f in frags)
    nt = sum(f.get("distinct_nontrivial", 0) for f in frags)
    print("%s %s: held on %d generated cases (%d distinct non-trivial) in %s, %.1fs"
          % (prop, tier, tot, nt, "+".join(f.get("config", "?") for f in frags), wall))
    return 0


FUZZ_TARGET = {"C01": "comb", "C02": "comb", "C03": "comb", "C05": "comb", "C07": "comb", "C08": "comb", "C09": "comb", "C11": "comb",
               "C12": "comb", "C16": "comb", "C20": "comb", "C13": "co", "C14": "co", "C15": "co",
               "C04": "comb", "C06": "comb", "C10": "comb", "C17": "comb", "C19": "comb"}


def fuzz_supplement(prop, seed):
    """Thorough tier only: a bounded coverage-guided libFuzzer campaign over
    the same decoder and the same in-target oracles (std configuration, ASan).
    A supplement: its executions are counted separately and a budget hit or a
    build problem is never a verdict. Returns (info, violation_replay)."""
    target = FUZZ_TARGET.get(prop)
    if not target:
        return None, None
    fuzz = os.path.join(ROOT, "fuzz")
    lock = os.path.join(fuzz, "Cargo.lock")
    if not os.path.exists(lock):
        subprocess.run(["cp", os.path.join(HARNESS, "Cargo.lock"), lock], check=False)
    feats = ["--features", "co"] if target == "co" else []
    t0 = time.time()
    b = subprocess.run(["cargo", "+nightly", "fuzz", "build", "--fuzz-dir", fuzz, target] + feats, env=env(), cwd=fuzz,
                       stdout=subprocess.PIPE, stderr=subprocess.STDOUT, text=True)
    if b.returncode != 0:
        return {"skipped": "the libFuzzer target does not build: " + b.stdout[-300:]}, None
    corpus = os.path.join(fuzz, "corpus", "%s-%s" % (target, prop))
    arts = os.path.join(fuzz, "artifacts", "%s-%s" % (target, prop)) + "/"
    subprocess.run(["rm", "-rf", corpus, arts])
    os.makedirs(corpus)
    os.makedirs(arts)
    # start from the saved inputs of this property (byte 0 is the profile selector, ignored in a
    # single-property campaign); on a tree on which the property holds they are ordinary cases
    n_seed = 0
    cf = os.path.join(ROOT, "corpus", "%s.%s.txt" % (prop, "co" if target == "co" else "comb"))
    if os.path.exists(cf):
        for l in open(cf).read().splitlines():
            tok = l.split("#")[0].split()
            if tok:
                try:
                    data = b"" if tok[0] == "-" else bytes.fromhex(tok[0])
                except ValueError:
                    continue
                with open(os.path.join(corpus, "seed-%04d" % n_seed), "wb") as fh:
                    fh.write(b"\x00" + data)
                n_seed += 1
    jobs = int(os.environ.get("FCV_FUZZ_JOBS", "8"))
    runs = int(os.environ.get("FCV_FUZZ_RUNS", "100000"))
    e = env()
    e["FCV_FUZZ_PROP"] = prop
    cmd = ["cargo", "+nightly", "fuzz", "run", "--fuzz-dir", fuzz, target] + feats + [corpus, "--",
           "-runs=%d" % runs, "-max_len=600", "-len_control=0", "-seed=%d" % ((seed % 2000000000) + 1), "-jobs=%d" % jobs, "-workers=%d" % jobs,
           "-max_total_time=900", "-artifact_prefix=" + arts, "-print_final_stats=1"]
    p = subprocess.run(cmd, env=e, cwd=fuzz, stdout=subprocess.PIPE, stderr=subprocess.STDOUT, text=True)
    execs = 0
    new_units = 0
    # with -jobs every job writes fuzz-<k>.log and the parent echoes them; count each job once
    joblogs = ""
    for f in sorted(os.listdir(fuzz)):
        if f.startswith("fuzz-") and f.endswith(".log"):
            try:
                joblogs += open(os.path.join(fuzz, f)).read()
            except Exception:
                pass
            os.remove(os.path.join(fuzz, f))
    logs = joblogs if joblogs else p.stdout
    for line in logs.splitlines():
        if line.startswith("stat::number_of_executed_units:"):
            execs += int(line.split()[-1])
        if line.startswith("stat::new_units_added:"):
            new_units += int(line.split()[-1])
    info = {"target": target, "executions": execs, "new_units_added": new_units, "jobs": jobs, "wall_s": round(time.time() - t0, 1),
            "sanitizer": "address", "config": "std", "seed_inputs_from_saved_corpus": n_seed}
    crashes = [f for f in os.listdir(arts) if f.startswith("crash-")]
    replay_path = None
    if crashes:
        data = open(os.path.join(arts, crashes[0]), "rb").read()
        os.makedirs(REPLAYS, exist_ok=True)
        import hashlib
        replay_path = os.path.join(REPLAYS, "%s-std-libfuzzer-%s.json" % (prop, hashlib.sha1(data).hexdigest()[:16]))
        msg = [l for l in logs.splitlines() if l.startswith("VIOLATION ") or l.startswith("case: ")]
        with open(replay_path, "w") as f:
            json.dump({"property": prop, "config": "std", "engine": "co" if target == "co" else "libfuzzer", "bytes": data[1:].hex(),
                       "found_by": "libFuzzer", "messages": msg[:4]}, f, indent=1)
            f.write("\n")
        info["crash_input"] = crashes[0]
    subprocess.run(["rm", "-rf", corpus, arts])
    return info, replay_path


def miri_supplement(prop, seed):
    """Thorough tier of C02 only: a sample of generated cases is executed under
    Miri (std configuration), so that reads of uninitialised output slots,
    double frees and use-after-free in the ManuallyDrop/MaybeUninit code are
    failures even where the drop counters cannot see them. A supplement: a
    build problem or a timeout is never a verdict. Returns (info, replay)."""
    procs = int(os.environ.get("FCV_MIRI_PROCS", "16"))
    cases = int(os.environ.get("FCV_MIRI_CASES", "100"))
    e = env()
    e["MIRIFLAGS"] = "-Zmiri-ignore-leaks"
    tdir = os.path.join(HARNESS, "target-miri")
    base = ["cargo", "+nightly", "miri", "run", "--manifest-path", os.path.join(HARNESS, "Cargo.toml"), "--target-dir", tdir, "--bin", "fcv", "--"]
    t0 = time.time()
    # build once (sysroot + harness), then fan out
    b = subprocess.run(base + ["miri", "--prop", prop, "--cases", "0"], env=e, stdout=subprocess.PIPE, stderr=subprocess.STDOUT, text=True)
    if b.returncode != 0 or "miri-done" not in b.stdout:
        return {"skipped": "the harness does not run under Miri here: " + b.stdout[-300:]}, None
    ps = []
    for k in range(procs):
        ps.append(subprocess.Popen(base + ["miri", "--prop", prop, "--cases", str(cases), "--seed", str(seed * 1000 + k)], env=e,
                                   stdout=subprocess.PIPE, stderr=subprocess.STDOUT, text=True))
    done = 0
    nontrivial = 0
    bad = None
    for p in ps:
        try:
            out, _ = p.communicate(timeout=1800)
        except subprocess.TimeoutExpired:
            p.kill()
            continue
        last_case = None
        for line in out.splitlines():
            if line.startswith("case "):
                last_case = line.split()[2] if len(line.split()) > 2 else ""
                done += 1
            if line.startswith("miri-done"):
                nontrivial += int(line.split("nontrivial=")[1])
        if p.returncode != 0 and bad is None and last_case is not None:
            msg = [l for l in out.splitlines() if "error:" in l or l.startswith("VIOLATED")][:3]
            bad = (last_case, msg)
    info = {"cases_under_miri": done, "nontrivial": nontrivial, "processes": procs, "wall_s": round(time.time() - t0, 1),
            "flags": "-Zmiri-ignore-leaks (leaks are judged by the drop counters)", "config": "std"}
    rp = None
    if bad:
        import hashlib
        os.makedirs(REPLAYS, exist_ok=True)
        rp = os.path.join(REPLAYS, "%s-std-miri-%s.json" % (prop, hashlib.sha1(bad[0].encode()).hexdigest()[:16]))
        with open(rp, "w") as f:
            json.dump({"property": prop, "config": "std", "engine": "miri", "bytes": bad[0], "found_by": "Miri", "messages": bad[1],
                       "how_to_replay_under_miri": "cd /verif/harness && MIRIFLAGS=-Zmiri-ignore-leaks cargo +nightly miri run --target-dir target-miri --bin fcv -- replay --prop %s --file <this file>" % prop},
                      f, indent=1)
            f.write("\n")
        info["miri_error"] = bad[1]
    return info, rp


def confirm_hang(prop, b, out):
    """The watchdog reported a case that made no progress for two minutes. Re-run
    that case alone (normally microseconds) with a generous limit; only a second
    hang counts."""
    paths = [l.split("replay=", 1)[1].strip() for l in out.splitlines() if l.startswith("HANG property=")]
    if not paths or not os.path.exists(paths[0]):
        return False
    e = env()
    e["FCV_PHASE_MARK"] = "1"
    logp = paths[0] + ".confirm.log"
    with open(logp, "w") as lf:
        p = subprocess.Popen([binary(b), "replay", "--file", paths[0], "--prop", prop, "--repeat", "200"], env=e, stdout=lf, stderr=subprocess.DEVNULL)
        try:
            p.wait(timeout=int(os.environ.get("FCV_HANG_CONFIRM_SECS", "60")))
            return False
        except subprocess.TimeoutExpired:
            p.kill()
            p.wait()
    # blocked again. Only a call into the library that does not return counts: if the
    # library calls of the case were over and the harness's own oracles were still
    # running, the case is merely expensive for the harness (infrastructure, exit 2)
    try:
        out2 = open(logp).read()
    except Exception:
        out2 = ""
    marks = [l for l in out2.splitlines() if l.startswith("PHASE ")]
    return bool(marks) and marks[-1] == "PHASE case-begin"


def cfg_label(b):
    cfg, _ = split(b)
    return {"nostd": "no_std", "stdrel": "std-release"}.get(cfg, cfg)


def crash_replay(prop, cfg):
    """Turn the case published by the crash handler into a replay file and
    confirm that replaying it alone crashes again."""
    binpath = os.path.join(REPLAYS, "crash-%s-%s.bin" % (prop, cfg_label(cfg)))
    engine = "harness"
    if not os.path.exists(binpath):
        # the storm phase (wakers invoked by helper threads) decodes the same
        # bytes differently, so its crash file is kept apart
        binpath = os.path.join(REPLAYS, "crash-%s-%s.storm.bin" % (prop, cfg_label(cfg)))
        engine = "storm"
    if not os.path.exists(binpath):
        return None
    with open(binpath, "rb") as f:
        data = f.read()
    os.remove(binpath)
    import hashlib
    h = hashlib.sha1(data).hexdigest()[:16]
    path = os.path.join(REPLAYS, "%s-%s-crash-%s.json" % (prop, cfg_label(cfg), h))
    with open(path, "w") as f:
        json.dump({"property": prop, "config": cfg_label(cfg), "engine": engine, "crash": True,
                   "bytes": data.hex()}, f, indent=1)
        f.write("\n")
    p = subprocess.run([binary(cfg), "replay", "--file", path, "--prop", prop], env=env(),
                       stdout=subprocess.PIPE, stderr=subprocess.STDOUT, text=True)
    if p.returncode == 3 or p.returncode < 0 or p.returncode == 1:
        return path
    return None


def replay(prop, path):
    try:
        with open(path) as f:
            meta = json.load(f)
    except Exception as e:
        print("cannot read replay file: %s" % e)
        return 2
    if meta.get("engine") == "autotraits":
        import autotraits
        return autotraits.replay(path)
    if meta.get("engine") == "miri":
        e = env()
        e["MIRIFLAGS"] = "-Zmiri-ignore-leaks"
        p = subprocess.run(["cargo", "+nightly", "miri", "run", "--manifest-path", os.path.join(HARNESS, "Cargo.toml"), "--target-dir",
                            os.path.join(HARNESS, "target-miri"), "--bin", "fcv", "--", "replay", "--file", path, "--prop", prop],
                           env=e, stdout=subprocess.PIPE, stderr=subprocess.STDOUT, text=True)
        sys.stdout.write(p.stdout[-3000:])
        if p.returncode == 0:
            return 0
        if "Undefined Behavior" in p.stdout or "VIOLATION property=" in p.stdout:
            if "VIOLATION property=" not in p.stdout:
                print("VIOLATION property=%s replay=%s" % (prop, path))
            return 1
        return 2
    cfg = meta.get("config", "std")
    cfg = {"no_std": "nostd", "std-release": "stdrel"}.get(cfg, cfg)
    if meta.get("engine") == "co" or (meta.get("engine") == "regress" and prop in ("C13", "C14", "C15")):
        cfg += "+co"
    ok, log = build(cfg)
    if not ok:
        sys.stdout.write(log[-4000:])
        return 2
    if meta.get("hang"):
        # a case on which the library blocked forever: replay it under a time limit
        try:
            p = subprocess.run([binary(cfg), "replay", "--file", path, "--prop", prop], env=env(),
                               timeout=int(os.environ.get("FCV_HANG_CONFIRM_SECS", "60")))
        except subprocess.TimeoutExpired:
            print("the library blocks forever on this case (deadlock)")
            print("VIOLATION property=%s replay=%s" % (prop, path))
            return 1
        return p.returncode
    p = subprocess.run([binary(cfg), "replay", "--file", path, "--prop", prop], env=env())
    if p.returncode == 3 or p.returncode < 0:
        print("the harness process crashed (fatal signal) while executing this case")
        print("VIOLATION property=%s replay=%s" % (prop, path))
        return 1
    return p.returncode


def setup():
    rc = 0
    for cfg in ["std", "alloc", "nostd", "stdrel", "std+co", "alloc+co"]:
        t0 = time.time()
        ok, log = build(cfg, quiet=False)
        print("setup: harness[%s] %s in %.0fs" % (cfg, "built" if ok else "FAILED", time.time() - t0))
        if not ok:
            rc = 2
    return rc


def main():
    a = sys.argv[1:]
    if not a:
        print(__doc__)
        return 2
    if a[0] == "--setup":
        return setup()
    prop = a[0]
    tier = os.environ.get("VERIF_TIER", "quick")
    if "--tier" in a:
        tier = a[a.index("--tier") + 1]
    seed = int(os.environ.get("VERIF_SEED", "20260929"))
    if "--replay" in a:
        return replay(prop, a[a.index("--replay") + 1])
    if prop not in PROP_CONFIGS:
        print("unknown property " + prop)
        return 2
    if prop == "C18":
        import autotraits
        return autotraits.main(tier, seed)
    return run_engine(prop, tier, seed)


if __name__ == "__main__":
    try:
        rc = main()
    except SystemExit:
        raise
    except BaseException:
        # a bug in the driver is an infrastructure problem, never a verdict
        import traceback
        traceback.print_exc()
        print("INFRA: the check driver failed")
        rc = 2
    sys.exit(rc)
