//! The children handed to the combinators under test: scripted leaves and
//! probed inner combinators, in three flavours (future -> Val,
//! future -> Result<Val,Val>, stream of Val).

use crate::val::{res_shape, Val};
use crate::world::{self, Answer, LeafOut, NodeId, PendKind};
use futures_core::Stream;
use std::future::Future;
use std::pin::Pin;
use std::task::{Context, Poll};

pub type BoxF = Pin<Box<dyn Future<Output = Val>>>;
pub type BoxR = Pin<Box<dyn Future<Output = Result<Val, Val>>>>;
pub type BoxS = Pin<Box<dyn Stream<Item = Val>>>;

/// Marks a node as dropped when it goes out of scope. Declared as the last
/// field of probes so the inner combinator (and hence its children) is
/// dropped first.
#[derive(Debug)]
pub struct DropMark(pub NodeId);
impl Drop for DropMark {
    fn drop(&mut self) {
        world::node_dropped(self.0);
    }
}

#[derive(Debug)]
pub struct LeafF(pub DropMark);
#[derive(Debug)]
pub struct LeafR(pub DropMark);
#[derive(Debug)]
pub struct LeafS(pub DropMark);

impl Future for LeafF {
    type Output = Val;
    fn poll(self: Pin<&mut Self>, cx: &mut Context<'_>) -> Poll<Val> {
        match world::leaf_poll(self.0 .0, cx) {
            LeafOut::Pending => Poll::Pending,
            LeafOut::Yield(t, _) => Poll::Ready(t),
            LeafOut::End => unreachable!(),
        }
    }
}

impl Future for LeafR {
    type Output = Result<Val, Val>;
    fn poll(self: Pin<&mut Self>, cx: &mut Context<'_>) -> Poll<Self::Output> {
        match world::leaf_poll(self.0 .0, cx) {
            LeafOut::Pending => Poll::Pending,
            LeafOut::Yield(t, true) => Poll::Ready(Ok(t)),
            LeafOut::Yield(t, false) => Poll::Ready(Err(t)),
            LeafOut::End => unreachable!(),
        }
    }
}

impl Stream for LeafS {
    type Item = Val;
    fn poll_next(self: Pin<&mut Self>, cx: &mut Context<'_>) -> Poll<Option<Val>> {
        match world::leaf_poll(self.0 .0, cx) {
            LeafOut::Pending => Poll::Pending,
            LeafOut::Yield(t, _) => Poll::Ready(Some(t)),
            LeafOut::End => Poll::Ready(None),
        }
    }
    fn size_hint(&self) -> (usize, Option<usize>) {
        world::leaf_size_hint(self.0 .0)
    }
}

struct PollGuard {
    id: NodeId,
    done: bool,
}
impl Drop for PollGuard {
    fn drop(&mut self) {
        if !self.done {
            world::comb_poll_panicked(self.id);
        }
    }
}

pub struct ProbeF {
    pub inner: Option<BoxF>,
    pub mark: DropMark,
}
pub struct ProbeR {
    pub inner: Option<BoxR>,
    pub mark: DropMark,
}
pub struct ProbeS {
    pub inner: Option<BoxS>,
    pub mark: DropMark,
}

// Hardening: a combinator bug may poll a child after it dropped it in place.
// Leave `None` behind so that such a poll is *recorded* (by the world) instead
// of following a dangling Box.
impl Drop for ProbeF {
    fn drop(&mut self) {
        world::node_drop_begin(self.mark.0);
        self.inner = None;
    }
}
impl Drop for ProbeR {
    fn drop(&mut self) {
        world::node_drop_begin(self.mark.0);
        self.inner = None;
    }
}
impl Drop for ProbeS {
    fn drop(&mut self) {
        world::node_drop_begin(self.mark.0);
        self.inner = None;
    }
}

pub struct WrapF {
    pub id: NodeId,
    pub inner: Option<BoxF>,
}
pub struct WrapR {
    pub id: NodeId,
    pub inner: Option<BoxR>,
}
impl Drop for WrapF {
    fn drop(&mut self) {
        self.inner = None;
    }
}
impl Drop for WrapR {
    fn drop(&mut self) {
        self.inner = None;
    }
}

impl std::fmt::Debug for ProbeF {
    fn fmt(&self, f: &mut std::fmt::Formatter<'_>) -> std::fmt::Result {
        write!(f, "ProbeF#{}", self.mark.0)
    }
}
impl std::fmt::Debug for ProbeR {
    fn fmt(&self, f: &mut std::fmt::Formatter<'_>) -> std::fmt::Result {
        write!(f, "ProbeR#{}", self.mark.0)
    }
}
impl std::fmt::Debug for ProbeS {
    fn fmt(&self, f: &mut std::fmt::Formatter<'_>) -> std::fmt::Result {
        write!(f, "ProbeS#{}", self.mark.0)
    }
}

impl Future for ProbeF {
    type Output = Val;
    fn poll(mut self: Pin<&mut Self>, cx: &mut Context<'_>) -> Poll<Val> {
        let id = self.mark.0;
        let wk = world::comb_poll_begin(id, cx.waker(), false);
        let mut g = PollGuard { id, done: false };
        let mut cx2 = Context::from_waker(&wk);
        let r = match self.inner.as_mut() {
            Some(f) => f.as_mut().poll(&mut cx2),
            None => Poll::Pending,
        };
        g.done = true;
        match &r {
            Poll::Pending => world::comb_poll_end(id, Answer::Pend(PendKind::Comb)),
            Poll::Ready(v) => world::comb_poll_end(id, Answer::Ready(v.shape())),
        }
        r
    }
}

impl Future for ProbeR {
    type Output = Result<Val, Val>;
    fn poll(mut self: Pin<&mut Self>, cx: &mut Context<'_>) -> Poll<Self::Output> {
        let id = self.mark.0;
        let wk = world::comb_poll_begin(id, cx.waker(), false);
        let mut g = PollGuard { id, done: false };
        let mut cx2 = Context::from_waker(&wk);
        let r = match self.inner.as_mut() {
            Some(f) => f.as_mut().poll(&mut cx2),
            None => Poll::Pending,
        };
        g.done = true;
        match &r {
            Poll::Pending => world::comb_poll_end(id, Answer::Pend(PendKind::Comb)),
            Poll::Ready(v) => world::comb_poll_end(id, Answer::Ready(res_shape(v))),
        }
        r
    }
}

impl Stream for ProbeS {
    type Item = Val;
    fn poll_next(mut self: Pin<&mut Self>, cx: &mut Context<'_>) -> Poll<Option<Val>> {
        let id = self.mark.0;
        let wk = world::comb_poll_begin(id, cx.waker(), false);
        let mut g = PollGuard { id, done: false };
        let mut cx2 = Context::from_waker(&wk);
        let r = match self.inner.as_mut() {
            Some(f) => f.as_mut().poll_next(&mut cx2),
            None => Poll::Ready(None),
        };
        g.done = true;
        match &r {
            Poll::Pending => world::comb_poll_end(id, Answer::Pend(PendKind::Comb)),
            Poll::Ready(Some(v)) => world::comb_poll_end(id, Answer::Item(v.shape())),
            Poll::Ready(None) => world::comb_poll_end(id, Answer::End),
        }
        r
    }
    fn size_hint(&self) -> (usize, Option<usize>) {
        match self.inner.as_ref() {
            Some(s) => s.size_hint(),
            None => (0, Some(0)),
        }
    }
}

pub enum FNode {
    Leaf(LeafF),
    Inner(ProbeF),
    /// a probed Result-future seen as a plain future (harness-side conversion)
    Wrapped(WrapF),
}
pub enum RNode {
    Leaf(LeafR),
    Inner(ProbeR),
    /// a probed plain future seen as Ok(..) (harness-side conversion)
    Wrapped(WrapR),
}
impl std::fmt::Debug for FNode {
    fn fmt(&self, f: &mut std::fmt::Formatter<'_>) -> std::fmt::Result {
        write!(f, "FNode")
    }
}
impl std::fmt::Debug for RNode {
    fn fmt(&self, f: &mut std::fmt::Formatter<'_>) -> std::fmt::Result {
        write!(f, "RNode")
    }
}
#[derive(Debug)]
pub enum SNode {
    Leaf(LeafS),
    Inner(ProbeS),
}

impl Future for FNode {
    type Output = Val;
    fn poll(self: Pin<&mut Self>, cx: &mut Context<'_>) -> Poll<Val> {
        match self.get_mut() {
            FNode::Leaf(l) => Pin::new(l).poll(cx),
            FNode::Inner(p) => Pin::new(p).poll(cx),
            FNode::Wrapped(b) => match b.inner.as_mut() {
                Some(f) => f.as_mut().poll(cx),
                None => Poll::Pending,
            },
        }
    }
}
impl Future for RNode {
    type Output = Result<Val, Val>;
    fn poll(self: Pin<&mut Self>, cx: &mut Context<'_>) -> Poll<Self::Output> {
        match self.get_mut() {
            RNode::Leaf(l) => Pin::new(l).poll(cx),
            RNode::Inner(p) => Pin::new(p).poll(cx),
            RNode::Wrapped(b) => match b.inner.as_mut() {
                Some(f) => f.as_mut().poll(cx),
                None => Poll::Pending,
            },
        }
    }
}
impl Stream for SNode {
    type Item = Val;
    fn poll_next(self: Pin<&mut Self>, cx: &mut Context<'_>) -> Poll<Option<Val>> {
        match self.get_mut() {
            SNode::Leaf(l) => Pin::new(l).poll_next(cx),
            SNode::Inner(p) => Pin::new(p).poll_next(cx),
        }
    }
    fn size_hint(&self) -> (usize, Option<usize>) {
        match self {
            SNode::Leaf(l) => l.size_hint(),
            SNode::Inner(p) => p.size_hint(),
        }
    }
}

impl FNode {
    pub fn id(&self) -> NodeId {
        match self {
            FNode::Leaf(l) => l.0 .0,
            FNode::Inner(p) => p.mark.0,
            FNode::Wrapped(b) => b.id,
        }
    }
}
impl SNode {
    pub fn id(&self) -> NodeId {
        match self {
            SNode::Leaf(l) => l.0 .0,
            SNode::Inner(p) => p.mark.0,
        }
    }
}


// ------------------------------------------------------------------ the type dimension
// Children WITHOUT drop glue (plain `Copy` handles; their values are ordinary
// `Val`s), and children whose VALUES have no drop glue (`Raw`). The library
// may consult `mem::needs_drop`; what it does must not depend on the answer.

#[derive(Clone, Copy, Debug)]
pub struct PlainF(pub NodeId);
#[derive(Clone, Copy, Debug)]
pub struct PlainR(pub NodeId);
#[derive(Clone, Copy, Debug)]
pub struct PlainS(pub NodeId);

impl Future for PlainF {
    type Output = Val;
    fn poll(self: Pin<&mut Self>, cx: &mut Context<'_>) -> Poll<Val> {
        match world::leaf_poll(self.0, cx) {
            LeafOut::Pending => Poll::Pending,
            LeafOut::Yield(t, _) => Poll::Ready(t),
            LeafOut::End => unreachable!(),
        }
    }
}
impl Future for PlainR {
    type Output = Result<Val, Val>;
    fn poll(self: Pin<&mut Self>, cx: &mut Context<'_>) -> Poll<Self::Output> {
        match world::leaf_poll(self.0, cx) {
            LeafOut::Pending => Poll::Pending,
            LeafOut::Yield(t, true) => Poll::Ready(Ok(t)),
            LeafOut::Yield(t, false) => Poll::Ready(Err(t)),
            LeafOut::End => unreachable!(),
        }
    }
}
impl Stream for PlainS {
    type Item = Val;
    fn poll_next(self: Pin<&mut Self>, cx: &mut Context<'_>) -> Poll<Option<Val>> {
        match world::leaf_poll(self.0, cx) {
            LeafOut::Pending => Poll::Pending,
            LeafOut::Yield(t, _) => Poll::Ready(Some(t)),
            LeafOut::End => Poll::Ready(None),
        }
    }
    fn size_hint(&self) -> (usize, Option<usize>) {
        world::leaf_size_hint(self.0)
    }
}

/// A value without destructor: the handle of a token whose drops are not tracked.
#[derive(Clone, Copy, Debug)]
pub struct Raw(pub u32);

fn raw(v: Val) -> Raw {
    let id = v.id;
    std::mem::forget(v);
    world::with(|w| {
        if let Some(t) = w.toks.get_mut(crate::val::index_of(id)) {
            t.untracked = true;
        }
    });
    Raw(id)
}

#[derive(Debug)]
pub struct RawF(pub DropMark);
#[derive(Debug)]
pub struct RawR(pub DropMark);
#[derive(Debug)]
pub struct RawS(pub DropMark);

impl Future for RawF {
    type Output = Raw;
    fn poll(self: Pin<&mut Self>, cx: &mut Context<'_>) -> Poll<Raw> {
        match world::leaf_poll(self.0 .0, cx) {
            LeafOut::Pending => Poll::Pending,
            LeafOut::Yield(t, _) => Poll::Ready(raw(t)),
            LeafOut::End => unreachable!(),
        }
    }
}
impl Future for RawR {
    type Output = Result<Raw, Val>;
    fn poll(self: Pin<&mut Self>, cx: &mut Context<'_>) -> Poll<Self::Output> {
        match world::leaf_poll(self.0 .0, cx) {
            LeafOut::Pending => Poll::Pending,
            LeafOut::Yield(t, true) => Poll::Ready(Ok(raw(t))),
            LeafOut::Yield(t, false) => Poll::Ready(Err(t)),
            LeafOut::End => unreachable!(),
        }
    }
}
impl Stream for RawS {
    type Item = Raw;
    fn poll_next(self: Pin<&mut Self>, cx: &mut Context<'_>) -> Poll<Option<Raw>> {
        match world::leaf_poll(self.0 .0, cx) {
            LeafOut::Pending => Poll::Pending,
            LeafOut::Yield(t, _) => Poll::Ready(Some(raw(t))),
            LeafOut::End => Poll::Ready(None),
        }
    }
    fn size_hint(&self) -> (usize, Option<usize>) {
        world::leaf_size_hint(self.0 .0)
    }
}

// ------------------------------------------------------------------ more value types
// Mixed instantiations: code may consult `mem::needs_drop` of one type
// parameter where it means another, or rely on the layout of a tuple of
// outputs. `Nz` has a niche and no destructor (like `char`, `NonZeroU32`,
// references), `Wide` is a 16-byte, 8-aligned value with a destructor; `ErrRawR`
// is a fallible future whose *error* type has no destructor while its Ok type has.

#[derive(Clone, Copy, Debug)]
pub struct Nz(pub core::num::NonZeroU32);

#[derive(Debug)]
pub struct Wide {
    pub pad: u64,
    pub id: u32,
}
impl Drop for Wide {
    fn drop(&mut self) {
        world::tok_dropped(self.id);
    }
}

fn nz(v: Val) -> Nz {
    let r = raw(v);
    Nz(core::num::NonZeroU32::new(r.0).unwrap_or(core::num::NonZeroU32::MAX))
}
fn wide(v: Val) -> Wide {
    let id = v.id;
    std::mem::forget(v);
    Wide { pad: 0x5a5a_a5a5_0f0f_f0f0, id }
}

macro_rules! conv_leaves {
    ($F:ident, $R:ident, $S:ident, $T:ty, $conv:ident) => {
        #[derive(Debug)]
        pub struct $F(pub DropMark);
        #[derive(Debug)]
        pub struct $R(pub DropMark);
        #[derive(Debug)]
        pub struct $S(pub DropMark);
        impl Future for $F {
            type Output = $T;
            fn poll(self: Pin<&mut Self>, cx: &mut Context<'_>) -> Poll<$T> {
                match world::leaf_poll(self.0 .0, cx) {
                    LeafOut::Pending => Poll::Pending,
                    LeafOut::Yield(t, _) => Poll::Ready($conv(t)),
                    LeafOut::End => unreachable!(),
                }
            }
        }
        impl Future for $R {
            type Output = Result<$T, Val>;
            fn poll(self: Pin<&mut Self>, cx: &mut Context<'_>) -> Poll<Self::Output> {
                match world::leaf_poll(self.0 .0, cx) {
                    LeafOut::Pending => Poll::Pending,
                    LeafOut::Yield(t, true) => Poll::Ready(Ok($conv(t))),
                    LeafOut::Yield(t, false) => Poll::Ready(Err(t)),
                    LeafOut::End => unreachable!(),
                }
            }
        }
        impl Stream for $S {
            type Item = $T;
            fn poll_next(self: Pin<&mut Self>, cx: &mut Context<'_>) -> Poll<Option<$T>> {
                match world::leaf_poll(self.0 .0, cx) {
                    LeafOut::Pending => Poll::Pending,
                    LeafOut::Yield(t, _) => Poll::Ready(Some($conv(t))),
                    LeafOut::End => Poll::Ready(None),
                }
            }
            fn size_hint(&self) -> (usize, Option<usize>) {
                world::leaf_size_hint(self.0 .0)
            }
        }
    };
}
/// A zero-sized value with a destructor.
#[derive(Debug)]
pub struct Zst;
impl Drop for Zst {
    fn drop(&mut self) {
        world::zst_dropped();
    }
}
fn zst(v: Val) -> Zst {
    let id = v.id;
    std::mem::forget(v);
    world::mark_zst(id);
    Zst
}
conv_leaves!(ZstF, ZstR, ZstS, Zst, zst);
conv_leaves!(NzF, NzR, NzS, Nz, nz);
conv_leaves!(WideF, WideR, WideS, Wide, wide);

/// fallible future whose error type has no destructor
#[derive(Debug)]
pub struct ErrRawR(pub DropMark);
impl Future for ErrRawR {
    type Output = Result<Val, Raw>;
    fn poll(self: Pin<&mut Self>, cx: &mut Context<'_>) -> Poll<Self::Output> {
        match world::leaf_poll(self.0 .0, cx) {
            LeafOut::Pending => Poll::Pending,
            LeafOut::Yield(t, true) => Poll::Ready(Ok(t)),
            LeafOut::Yield(t, false) => Poll::Ready(Err(raw(t))),
            LeafOut::End => unreachable!(),
        }
    }
}
