//! Builds the real combinators of the crate under test from a `CombSpec`,
//! over harness-owned children, for every container the crate implements.

use crate::nodes::*;
use crate::spec::{ChildSpec, CombSpec};
use crate::val::Val;
use crate::world::{self, Container, Family, Flavor, NodeId, NodeKind};
use futures_concurrency::future as fcf;
use futures_concurrency::stream as fcs;
use futures_core::Stream;
use std::future::Future;
use std::pin::Pin;
use std::task::{Context, Poll};

pub enum Top {
    F(BoxF),
    R(BoxR),
    S(BoxS),
    /// a group driven by an operation history (groups.rs)
    G(Box<dyn crate::groups::GroupDyn>),
}

/// Array lengths that are instantiated (const generics need a closed set).
pub const ARRAY_LENS: &[usize] = &[0, 1, 2, 3, 4, 5, 6, 7, 8, 12, 13, 16, 256, 300];

/// An element a combinator hands back: an ordinary tracked value, or a raw
/// (destructor-less) handle that is adopted again here.
pub trait IntoVal {
    fn into_val(self) -> Val;
}
impl IntoVal for Val {
    fn into_val(self) -> Val {
        self
    }
}
impl IntoVal for Raw {
    fn into_val(self) -> Val {
        Val { id: self.0 }
    }
}

impl IntoVal for Zst {
    fn into_val(self) -> Val {
        std::mem::forget(self);
        world::zst_adopt()
    }
}
impl IntoVal for Nz {
    fn into_val(self) -> Val {
        Val { id: self.0.get() }
    }
}
impl IntoVal for Wide {
    fn into_val(self) -> Val {
        let id = self.id;
        std::mem::forget(self);
        Val { id }
    }
}

/// move a stored error out of an aggregate (race_ok)
pub trait TakeVal {
    fn take_val(&mut self) -> Val;
}
impl TakeVal for Val {
    fn take_val(&mut self) -> Val {
        std::mem::replace(self, Val::list(Vec::new()))
    }
}
impl TakeVal for Raw {
    fn take_val(&mut self) -> Val {
        Val { id: self.0 }
    }
}

pub trait TupleOut {
    fn into_vec(self) -> Vec<Val>;
}
impl TupleOut for () {
    fn into_vec(self) -> Vec<Val> {
        Vec::new()
    }
}
macro_rules! impl_tuple_out {
    ($($x:ident)+) => {
        impl<$($x: IntoVal),+> TupleOut for ($($x,)+) {
            #[allow(non_snake_case)]
            fn into_vec(self) -> Vec<Val> {
                let ($($x,)+) = self;
                vec![$($x.into_val(),)+]
            }
        }
    };
}
impl_tuple_out!(A);
impl_tuple_out!(A B);
impl_tuple_out!(A B C);
impl_tuple_out!(A B C D);
impl_tuple_out!(A B C D E);
impl_tuple_out!(A B C D E F);
impl_tuple_out!(A B C D E F G);
impl_tuple_out!(A B C D E F G H);
impl_tuple_out!(A B C D E F G H I);
impl_tuple_out!(A B C D E F G H I J);
impl_tuple_out!(A B C D E F G H I J K);
impl_tuple_out!(A B C D E F G H I J K L);

impl<T: IntoVal, const N: usize> TupleOut for [T; N] {
    fn into_vec(self) -> Vec<Val> {
        self.into_iter().map(IntoVal::into_val).collect()
    }
}
impl<T: IntoVal> TupleOut for Vec<T> {
    fn into_vec(self) -> Vec<Val> {
        self.into_iter().map(IntoVal::into_val).collect()
    }
}

/// expands `$body` once per tuple arity 1..=12 with `$t` bound to the tuple
macro_rules! tuple_match {
    ($n:expr, $it:ident, |$t:ident| $body:expr) => {
        match $n {
            1 => { let $t = (nx!($it),); $body }
            2 => { let $t = (nx!($it), nx!($it)); $body }
            3 => { let $t = (nx!($it), nx!($it), nx!($it)); $body }
            4 => { let $t = (nx!($it), nx!($it), nx!($it), nx!($it)); $body }
            5 => { let $t = (nx!($it), nx!($it), nx!($it), nx!($it), nx!($it)); $body }
            6 => { let $t = (nx!($it), nx!($it), nx!($it), nx!($it), nx!($it), nx!($it)); $body }
            7 => { let $t = (nx!($it), nx!($it), nx!($it), nx!($it), nx!($it), nx!($it), nx!($it)); $body }
            8 => { let $t = (nx!($it), nx!($it), nx!($it), nx!($it), nx!($it), nx!($it), nx!($it), nx!($it)); $body }
            9 => { let $t = (nx!($it), nx!($it), nx!($it), nx!($it), nx!($it), nx!($it), nx!($it), nx!($it), nx!($it)); $body }
            10 => { let $t = (nx!($it), nx!($it), nx!($it), nx!($it), nx!($it), nx!($it), nx!($it), nx!($it), nx!($it), nx!($it)); $body }
            11 => { let $t = (nx!($it), nx!($it), nx!($it), nx!($it), nx!($it), nx!($it), nx!($it), nx!($it), nx!($it), nx!($it), nx!($it)); $body }
            12 => { let $t = (nx!($it), nx!($it), nx!($it), nx!($it), nx!($it), nx!($it), nx!($it), nx!($it), nx!($it), nx!($it), nx!($it), nx!($it)); $body }
            n => panic!("harness: unsupported tuple arity {}", n),
        }
    };
}
macro_rules! nx {
    ($it:ident) => {
        $it.next().unwrap()
    };
}

/// a tuple whose element types differ: element i is made by the (i % 4)-th
/// constructor from the next leaf
macro_rules! hetero_match {
    ($n:expr, $it:ident, [$m0:expr, $m1:expr, $m2:expr, $m3:expr], |$t:ident| $body:expr) => {
        match $n {
            2 => { let $t = ($m0(nx!($it)), $m1(nx!($it))); $body }
            3 => { let $t = ($m0(nx!($it)), $m1(nx!($it)), $m2(nx!($it))); $body }
            4 => { let $t = ($m0(nx!($it)), $m1(nx!($it)), $m2(nx!($it)), $m3(nx!($it))); $body }
            5 => { let $t = ($m0(nx!($it)), $m1(nx!($it)), $m2(nx!($it)), $m3(nx!($it)), $m0(nx!($it))); $body }
            6 => { let $t = ($m0(nx!($it)), $m1(nx!($it)), $m2(nx!($it)), $m3(nx!($it)), $m0(nx!($it)), $m1(nx!($it))); $body }
            7 => { let $t = ($m0(nx!($it)), $m1(nx!($it)), $m2(nx!($it)), $m3(nx!($it)), $m0(nx!($it)), $m1(nx!($it)), $m2(nx!($it))); $body }
            8 => { let $t = ($m0(nx!($it)), $m1(nx!($it)), $m2(nx!($it)), $m3(nx!($it)), $m0(nx!($it)), $m1(nx!($it)), $m2(nx!($it)), $m3(nx!($it))); $body }
            9 => { let $t = ($m0(nx!($it)), $m1(nx!($it)), $m2(nx!($it)), $m3(nx!($it)), $m0(nx!($it)), $m1(nx!($it)), $m2(nx!($it)), $m3(nx!($it)), $m0(nx!($it))); $body }
            10 => { let $t = ($m0(nx!($it)), $m1(nx!($it)), $m2(nx!($it)), $m3(nx!($it)), $m0(nx!($it)), $m1(nx!($it)), $m2(nx!($it)), $m3(nx!($it)), $m0(nx!($it)), $m1(nx!($it))); $body }
            11 => { let $t = ($m0(nx!($it)), $m1(nx!($it)), $m2(nx!($it)), $m3(nx!($it)), $m0(nx!($it)), $m1(nx!($it)), $m2(nx!($it)), $m3(nx!($it)), $m0(nx!($it)), $m1(nx!($it)), $m2(nx!($it))); $body }
            12 => { let $t = ($m0(nx!($it)), $m1(nx!($it)), $m2(nx!($it)), $m3(nx!($it)), $m0(nx!($it)), $m1(nx!($it)), $m2(nx!($it)), $m3(nx!($it)), $m0(nx!($it)), $m1(nx!($it)), $m2(nx!($it)), $m3(nx!($it))); $body }
            n => panic!("harness: unsupported heterogeneous tuple arity {}", n),
        }
    };
}

/// expands `$body` once per instantiated array length with `$a: [T; N]`
macro_rules! array_match {
    ($v:expr, |$a:ident| $body:expr) => {{
        let v = $v;
        match v.len() {
            0 => { let $a: [_; 0] = v.try_into().ok().unwrap(); $body }
            1 => { let $a: [_; 1] = v.try_into().ok().unwrap(); $body }
            2 => { let $a: [_; 2] = v.try_into().ok().unwrap(); $body }
            3 => { let $a: [_; 3] = v.try_into().ok().unwrap(); $body }
            4 => { let $a: [_; 4] = v.try_into().ok().unwrap(); $body }
            5 => { let $a: [_; 5] = v.try_into().ok().unwrap(); $body }
            6 => { let $a: [_; 6] = v.try_into().ok().unwrap(); $body }
            7 => { let $a: [_; 7] = v.try_into().ok().unwrap(); $body }
            8 => { let $a: [_; 8] = v.try_into().ok().unwrap(); $body }
            12 => { let $a: [_; 12] = v.try_into().ok().unwrap(); $body }
            13 => { let $a: [_; 13] = v.try_into().ok().unwrap(); $body }
            16 => { let $a: [_; 16] = v.try_into().ok().unwrap(); $body }
            256 => { let $a: [_; 256] = v.try_into().ok().unwrap(); $body }
            300 => { let $a: [_; 300] = v.try_into().ok().unwrap(); $body }
            n => panic!("harness: unsupported array length {}", n),
        }
    }};
}

/// Stream adapter converting the item type (harness side, trivial).
pub struct MapS<St, F> {
    inner: Pin<Box<St>>,
    f: F,
}
impl<St: Stream, F: FnMut(St::Item) -> Val + Unpin> Stream for MapS<St, F> {
    type Item = Val;
    fn poll_next(self: Pin<&mut Self>, cx: &mut Context<'_>) -> Poll<Option<Val>> {
        let this = self.get_mut();
        match this.inner.as_mut().poll_next(cx) {
            Poll::Pending => Poll::Pending,
            Poll::Ready(None) => Poll::Ready(None),
            Poll::Ready(Some(x)) => Poll::Ready(Some((this.f)(x))),
        }
    }
}
fn map_s<St: Stream + 'static, F: FnMut(St::Item) -> Val + Unpin + 'static>(st: St, f: F) -> BoxS {
    Box::pin(MapS {
        inner: Box::pin(st),
        f,
    })
}

/// Future adapter converting the output (harness side, trivial). Deliberately
/// not an `async` block: an async block that a panic unwound through destroys
/// its locals - the combinator - and refuses to be polled again, and the
/// harness wants to be able to poll a combinator on after a caught panic.
pub struct MapF<Fu, F> {
    inner: Pin<Box<Fu>>,
    f: Option<F>,
}
impl<Fu: Future, O, F: FnOnce(Fu::Output) -> O + Unpin> Future for MapF<Fu, F> {
    type Output = O;
    fn poll(self: Pin<&mut Self>, cx: &mut Context<'_>) -> Poll<O> {
        let this = self.get_mut();
        match this.inner.as_mut().poll(cx) {
            Poll::Pending => Poll::Pending,
            Poll::Ready(x) => Poll::Ready((this.f.take().expect("harness: MapF polled after completion"))(x)),
        }
    }
}
fn map_f<Fu: Future + 'static, O: 'static, F: FnOnce(Fu::Output) -> O + Unpin + 'static>(fu: Fu, f: F) -> Pin<Box<dyn Future<Output = O>>> {
    Box::pin(MapF { inner: Box::pin(fu), f: Some(f) })
}

fn fin_join<Fu>(f: Fu) -> BoxF
where
    Fu: Future + 'static,
    Fu::Output: TupleOut,
{
    map_f(f, |out| Val::list(out.into_vec()))
}

fn fin_try_join<Fu, T, E>(f: Fu) -> BoxR
where
    Fu: Future<Output = Result<T, E>> + 'static,
    T: TupleOut,
    E: IntoVal,
{
    map_f(f, |r| match r {
        Ok(t) => Ok(Val::list(t.into_vec())),
        Err(e) => Err(e.into_val()),
    })
}

fn take_all<X: TakeVal>(s: &mut [X]) -> Vec<Val> {
    s.iter_mut().map(|v| v.take_val()).collect()
}

fn fin_race_ok_arr<Fu, T, X, E, const N: usize>(f: Fu) -> BoxR
where
    Fu: Future<Output = Result<T, E>> + 'static,
    T: IntoVal,
    X: TakeVal,
    E: std::ops::DerefMut<Target = [X; N]>,
{
    map_f(f, |r| match r {
        Ok(v) => Ok(v.into_val()),
        Err(mut agg) => {
            let v = take_all(&mut agg[..]);
            Err(Val::list(v))
        }
    })
}

#[cfg(feature = "has-alloc")]
fn fin_race_ok_vec<Fu, T, X, E>(f: Fu) -> BoxR
where
    Fu: Future<Output = Result<T, E>> + 'static,
    T: IntoVal,
    X: TakeVal,
    E: std::ops::DerefMut<Target = Vec<X>>,
{
    map_f(f, |r| match r {
        Ok(v) => Ok(v.into_val()),
        Err(mut agg) => {
            let v = take_all(&mut agg[..]);
            Err(Val::list(v))
        }
    })
}

fn new_comb_node(parent: Option<NodeId>, idx: usize, spec: &CombSpec) -> NodeId {
    world::with(|w| {
        w.new_node(
            parent,
            idx,
            NodeKind::Comb {
                family: spec.family,
                container: spec.container,
                children: Vec::new(),
            },
        )
    })
}

pub fn new_leaf(parent: Option<NodeId>, idx: usize, flavor: Flavor, l: &crate::spec::LeafSpec) -> NodeId {
    world::with(|w| {
        w.new_node(
            parent,
            idx,
            NodeKind::Leaf {
                flavor,
                script: l.script.clone(),
                pos: 0,
                always: l.always,
                hint: l.hint,
                dropwake: l.dropwake,
            },
        )
    })
}

pub fn build_fnode(parent: NodeId, idx: usize, c: &ChildSpec) -> FNode {
    match c {
        ChildSpec::Leaf(l) => FNode::Leaf(LeafF(DropMark(new_leaf(Some(parent), idx, Flavor::F, l)))),
        ChildSpec::Inner(s) => match s.family.own_flavor() {
            Flavor::F => {
                let (id, b) = build_f(Some(parent), idx, s);
                FNode::Inner(ProbeF {
                    inner: Some(b),
                    mark: DropMark(id),
                })
            }
            Flavor::R => {
                let (id, b) = build_r(Some(parent), idx, s);
                let p = ProbeR {
                    inner: Some(b),
                    mark: DropMark(id),
                };
                FNode::Wrapped(WrapF { id, inner: Some(map_f(p, Val::res)) })
            }
            Flavor::S => panic!("harness: stream child in a future combinator"),
        },
    }
}

pub fn build_rnode(parent: NodeId, idx: usize, c: &ChildSpec) -> RNode {
    match c {
        ChildSpec::Leaf(l) => RNode::Leaf(LeafR(DropMark(new_leaf(Some(parent), idx, Flavor::R, l)))),
        ChildSpec::Inner(s) => match s.family.own_flavor() {
            Flavor::R => {
                let (id, b) = build_r(Some(parent), idx, s);
                RNode::Inner(ProbeR {
                    inner: Some(b),
                    mark: DropMark(id),
                })
            }
            Flavor::F => {
                let (id, b) = build_f(Some(parent), idx, s);
                let p = ProbeF {
                    inner: Some(b),
                    mark: DropMark(id),
                };
                RNode::Wrapped(WrapR { id, inner: Some(map_f(p, Ok)) })
            }
            Flavor::S => panic!("harness: stream child in a future combinator"),
        },
    }
}

pub fn build_snode(parent: NodeId, idx: usize, c: &ChildSpec) -> SNode {
    match c {
        ChildSpec::Leaf(l) => SNode::Leaf(LeafS(DropMark(new_leaf(Some(parent), idx, Flavor::S, l)))),
        ChildSpec::Inner(s) => {
            let (id, b) = build_s(Some(parent), idx, s);
            SNode::Inner(ProbeS {
                inner: Some(b),
                mark: DropMark(id),
            })
        }
    }
}

/// A caller's Vec often has spare capacity (push loops, with_capacity): give
/// every third child vector some, so that nothing can rely on len == capacity.
trait WithSlack {
    fn with_slack(self) -> Self;
}
impl<T> WithSlack for Vec<T> {
    fn with_slack(mut self) -> Self {
        if self.len() % 3 == 1 {
            self.reserve(self.len() + 5);
        }
        self
    }
}

fn kids_f(id: NodeId, spec: &CombSpec) -> Vec<FNode> {
    spec.children
        .iter()
        .enumerate()
        .map(|(i, c)| build_fnode(id, i, c))
        .collect::<Vec<_>>()
        .with_slack()
}
fn kids_r(id: NodeId, spec: &CombSpec) -> Vec<RNode> {
    spec.children
        .iter()
        .enumerate()
        .map(|(i, c)| build_rnode(id, i, c))
        .collect::<Vec<_>>()
        .with_slack()
}
fn kids_s(id: NodeId, spec: &CombSpec) -> Vec<SNode> {
    spec.children
        .iter()
        .enumerate()
        .map(|(i, c)| build_snode(id, i, c))
        .collect::<Vec<_>>()
        .with_slack()
}

/// Children of the type-dimension variants (all of them leaves).
fn kids_plain<K>(id: NodeId, spec: &CombSpec, flavor: Flavor, mk: fn(NodeId) -> K) -> Vec<K> {
    spec.children
        .iter()
        .enumerate()
        .map(|(i, c)| match c {
            ChildSpec::Leaf(l) => {
                let leaf = new_leaf(Some(id), i, flavor, l);
                world::with(|w| w.nodes[leaf].untracked_drop = true);
                mk(leaf)
            }
            ChildSpec::Inner(_) => panic!("harness: the type-dimension variants have leaf children only"),
        })
        .collect::<Vec<_>>()
        .with_slack()
}
fn kids_raw<K>(id: NodeId, spec: &CombSpec, flavor: Flavor, mk: fn(DropMark) -> K) -> Vec<K> {
    spec.children
        .iter()
        .enumerate()
        .map(|(i, c)| match c {
            ChildSpec::Leaf(l) => mk(DropMark(new_leaf(Some(id), i, flavor, l))),
            ChildSpec::Inner(_) => panic!("harness: the type-dimension variants have leaf children only"),
        })
        .collect::<Vec<_>>()
        .with_slack()
}

fn join_over<K>(v: Vec<K>, container: Container, n: usize) -> BoxF
where
    K: Future + 'static,
    K::Output: IntoVal + 'static,
{
    use fcf::{FutureExt as _, Join as _};
    match container {
        Container::Tuple => {
            if n == 0 {
                fin_join(().join())
            } else {
                let mut it = v.into_iter();
                tuple_match!(n, it, |t| fin_join(t.join()))
            }
        }
        Container::Array => array_match!(v, |a| fin_join(a.join())),
        #[cfg(feature = "has-alloc")]
        Container::Vec => fin_join(v.join()),
        Container::Ext => {
            let mut it = v.into_iter();
            let (a, b) = (nx!(it), nx!(it));
            fin_join(a.join(b))
        }
        c => panic!("harness: join over {:?}", c),
    }
}

fn race_over<K>(v: Vec<K>, container: Container, n: usize) -> BoxF
where
    K: Future<Output = Val> + 'static,
{
    use fcf::{FutureExt as _, Race as _};
    match container {
        Container::Tuple => {
            let mut it = v.into_iter();
            tuple_match!(n, it, |t| Box::pin(t.race()) as BoxF)
        }
        Container::Array => array_match!(v, |a| Box::pin(a.race()) as BoxF),
        #[cfg(feature = "has-alloc")]
        Container::Vec => Box::pin(v.race()),
        Container::Ext => {
            let mut it = v.into_iter();
            let (a, b) = (nx!(it), nx!(it));
            Box::pin(a.race(b))
        }
        c => panic!("harness: race over {:?}", c),
    }
}

fn try_join_over<K, T, E>(v: Vec<K>, container: Container, n: usize) -> BoxR
where
    K: Future<Output = Result<T, E>> + 'static,
    T: IntoVal + 'static,
    E: IntoVal + 'static,
{
    use fcf::TryJoin as _;
    match container {
        Container::Tuple => {
            if n == 0 {
                Box::pin(async move {
                    match ().try_join().await {
                        Ok(()) => Ok(Val::list(Vec::new())),
                        Err(e) => match e {},
                    }
                })
            } else {
                let mut it = v.into_iter();
                tuple_match!(n, it, |t| fin_try_join(t.try_join()))
            }
        }
        Container::Array => array_match!(v, |a| fin_try_join(a.try_join())),
        #[cfg(feature = "has-alloc")]
        Container::Vec => fin_try_join(v.try_join()),
        c => panic!("harness: try_join over {:?}", c),
    }
}

fn race_ok_over<K, T, X>(v: Vec<K>, container: Container, n: usize) -> BoxR
where
    K: Future<Output = Result<T, X>> + 'static,
    T: IntoVal + 'static,
    X: TakeVal + std::fmt::Debug + 'static,
{
    use fcf::RaceOk as _;
    match container {
        Container::Tuple => {
            let mut it = v.into_iter();
            tuple_match!(n, it, |t| fin_race_ok_arr(t.race_ok()))
        }
        Container::Array => array_match!(v, |a| fin_race_ok_arr(a.race_ok())),
        #[cfg(feature = "has-alloc")]
        Container::Vec => fin_race_ok_vec(v.race_ok()),
        c => panic!("harness: race_ok over {:?}", c),
    }
}

fn merge_over<K>(v: Vec<K>, container: Container, n: usize) -> BoxS
where
    K: Stream<Item = Val> + 'static,
{
    use fcs::{Merge as _, StreamExt as _};
    match container {
        Container::Tuple => {
            if n == 0 {
                map_s(().merge(), |x| match x {})
            } else {
                let mut it = v.into_iter();
                tuple_match!(n, it, |t| Box::pin(t.merge()) as BoxS)
            }
        }
        // one array beyond a two-byte counter, for merge only (regression case)
        Container::Array if v.len() == 65_537 => {
            let a: Box<[K; 65_537]> = match v.into_boxed_slice().try_into() {
                Ok(a) => a,
                Err(_) => unreachable!(),
            };
            big_array_merge(a)
        }
        Container::Array => array_match!(v, |a| Box::pin(a.merge()) as BoxS),
        #[cfg(feature = "has-alloc")]
        Container::Vec => Box::pin(v.merge()),
        Container::Ext => {
            let mut it = v.into_iter();
            let (a, b) = (nx!(it), nx!(it));
            Box::pin(a.merge(b))
        }
        c => panic!("harness: merge over {:?}", c),
    }
}

#[inline(never)]
fn big_array_merge<K>(a: Box<[K; 65_537]>) -> BoxS
where
    K: Stream<Item = Val> + 'static,
{
    use fcs::Merge as _;
    Box::pin((*a).merge())
}

fn zip_over<K>(v: Vec<K>, container: Container, n: usize) -> BoxS
where
    K: Stream + 'static,
    K::Item: IntoVal + 'static,
{
    use fcs::{StreamExt as _, Zip as _};
    match container {
        Container::Tuple => {
            let mut it = v.into_iter();
            tuple_match!(n, it, |t| map_s(t.zip(), |x| Val::list(x.into_vec())))
        }
        Container::Array => array_match!(v, |a| map_s(a.zip(), |x| Val::list(x.into_vec()))),
        #[cfg(feature = "has-alloc")]
        Container::Vec => map_s(v.zip(), |x| Val::list(x.into_vec())),
        Container::Ext => {
            let mut it = v.into_iter();
            let (a, b) = (nx!(it), nx!(it));
            map_s(a.zip(b), |x| Val::list(x.into_vec()))
        }
        c => panic!("harness: zip over {:?}", c),
    }
}

fn chain_over<K>(v: Vec<K>, container: Container, n: usize) -> BoxS
where
    K: Stream<Item = Val> + 'static,
{
    use fcs::{Chain as _, StreamExt as _};
    match container {
        Container::Tuple => {
            let mut it = v.into_iter();
            tuple_match!(n, it, |t| Box::pin(t.chain()) as BoxS)
        }
        Container::Array => array_match!(v, |a| Box::pin(a.chain()) as BoxS),
        #[cfg(feature = "has-alloc")]
        Container::Vec => Box::pin(v.chain()),
        Container::Ext => {
            let mut it = v.into_iter();
            let (a, b) = (nx!(it), nx!(it));
            Box::pin(a.chain(b))
        }
        c => panic!("harness: chain over {:?}", c),
    }
}

pub fn build_f(parent: Option<NodeId>, idx: usize, spec: &CombSpec) -> (NodeId, BoxF) {
    use fcf::{FutureExt as _, Join as _, Race as _};
    let id = new_comb_node(parent, idx, spec);
    let n = spec.children.len();
    let b: BoxF = match spec.family {
        Family::Join => match spec.variant {
            1 => join_over(kids_plain(id, spec, Flavor::F, PlainF), spec.container, n),
            2 => join_over(kids_raw(id, spec, Flavor::F, RawF), spec.container, n),
            5 => join_over(kids_raw(id, spec, Flavor::F, ZstF), spec.container, n),
            4 => {
                let mut it = kids_raw(id, spec, Flavor::F, |m| m).into_iter();
                hetero_match!(n, it, [LeafF, NzF, RawF, WideF], |t| fin_join(t.join()))
            }
            _ => join_over(kids_f(id, spec), spec.container, n),
        },
        Family::Race => match spec.variant {
            1 => race_over(kids_plain(id, spec, Flavor::F, PlainF), spec.container, n),
            _ => race_over(kids_f(id, spec), spec.container, n),
        },
        Family::WaitF => {
            let inner = build_fnode(id, 0, &spec.children[0]);
            let deadline = build_fnode(id, 1, &spec.children[1]);
            Box::pin(inner.wait_until(deadline))
        }
        f => panic!("harness: {:?} is not a future of Val", f),
    };
    (id, b)
}

pub fn build_r(parent: Option<NodeId>, idx: usize, spec: &CombSpec) -> (NodeId, BoxR) {
    use fcf::{RaceOk as _, TryJoin as _};
    let id = new_comb_node(parent, idx, spec);
    let n = spec.children.len();
    let b: BoxR = match spec.family {
        Family::TryJoin => match spec.variant {
            1 => try_join_over(kids_plain(id, spec, Flavor::R, PlainR), spec.container, n),
            2 => try_join_over(kids_raw(id, spec, Flavor::R, RawR), spec.container, n),
            3 => try_join_over(kids_raw(id, spec, Flavor::R, ErrRawR), spec.container, n),
            5 => try_join_over(kids_raw(id, spec, Flavor::R, ZstR), spec.container, n),
            4 => {
                let mut it = kids_raw(id, spec, Flavor::R, |m| m).into_iter();
                hetero_match!(n, it, [LeafR, NzR, RawR, WideR], |t| fin_try_join(t.try_join()))
            }
            _ => try_join_over(kids_r(id, spec), spec.container, n),
        },
        Family::RaceOk => match spec.variant {
            1 => race_ok_over(kids_plain(id, spec, Flavor::R, PlainR), spec.container, n),
            2 => race_ok_over(kids_raw(id, spec, Flavor::R, RawR), spec.container, n),
            3 => race_ok_over(kids_raw(id, spec, Flavor::R, ErrRawR), spec.container, n),
            _ => race_ok_over(kids_r(id, spec), spec.container, n),
        },
        f => panic!("harness: {:?} is not a future of Result", f),
    };
    (id, b)
}

pub fn build_s(parent: Option<NodeId>, idx: usize, spec: &CombSpec) -> (NodeId, BoxS) {
    use fcs::{Chain as _, Merge as _, StreamExt as _, Zip as _};
    let id = new_comb_node(parent, idx, spec);
    let n = spec.children.len();
    let b: BoxS = match spec.family {
        Family::Merge => match spec.variant {
            1 => merge_over(kids_plain(id, spec, Flavor::S, PlainS), spec.container, n),
            _ => merge_over(kids_s(id, spec), spec.container, n),
        },
        Family::Zip => match spec.variant {
            1 => zip_over(kids_plain(id, spec, Flavor::S, PlainS), spec.container, n),
            2 => zip_over(kids_raw(id, spec, Flavor::S, RawS), spec.container, n),
            5 => zip_over(kids_raw(id, spec, Flavor::S, ZstS), spec.container, n),
            4 => {
                let mut it = kids_raw(id, spec, Flavor::S, |m| m).into_iter();
                hetero_match!(n, it, [LeafS, NzS, RawS, WideS], |t| map_s(t.zip(), |x| Val::list(x.into_vec())))
            }
            _ => zip_over(kids_s(id, spec), spec.container, n),
        },
        Family::Chain => match spec.variant {
            1 => chain_over(kids_plain(id, spec, Flavor::S, PlainS), spec.container, n),
            _ => chain_over(kids_s(id, spec), spec.container, n),
        },
        Family::WaitS => {
            let inner = build_snode(id, 0, &spec.children[0]);
            let deadline = build_fnode(id, 1, &spec.children[1]);
            Box::pin(inner.wait_until(deadline))
        }
        #[cfg(feature = "has-alloc")]
        Family::FutGroup => {
            let v = kids_f(id, spec);
            let mut g = fcf::FutureGroup::new();
            for (i, c) in v.into_iter().enumerate() {
                let cid = c.id();
                g.insert(c);
                world::with(|w| w.nodes[cid].key = Some(i));
            }
            match spec.container {
                Container::KeyedGroup => map_s(g.keyed(), |(_k, v)| v),
                _ => Box::pin(g),
            }
        }
        #[cfg(feature = "has-alloc")]
        Family::StrGroup => {
            let v = kids_s(id, spec);
            let mut g = fcs::StreamGroup::new();
            for (i, c) in v.into_iter().enumerate() {
                let cid = c.id();
                g.insert(c);
                world::with(|w| w.nodes[cid].key = Some(i));
            }
            match spec.container {
                Container::KeyedGroup => map_s(g.keyed(), |(_k, v)| v),
                _ => Box::pin(g),
            }
        }
        f => panic!("harness: {:?} is not a stream", f),
    };
    (id, b)
}

pub fn build_top(spec: &CombSpec) -> (NodeId, Top) {
    match spec.family.own_flavor() {
        Flavor::F => {
            let (id, b) = build_f(None, 0, spec);
            (id, Top::F(b))
        }
        Flavor::R => {
            let (id, b) = build_r(None, 0, spec);
            (id, Top::R(b))
        }
        Flavor::S => {
            let (id, b) = build_s(None, 0, spec);
            (id, Top::S(b))
        }
    }
}
