//! Harness-owned values. Every value a scripted child produces is a `Tok`
//! whose creation and drop are logged in the thread-local `World`, so that
//! "returned without having been produced", double drops and leaks are
//! countable rather than silent.

use crate::world;

/// A produced value. Not `Clone`, not `Copy`.
#[derive(Debug)]
pub struct Tok {
    pub id: u32,
}

impl Drop for Tok {
    fn drop(&mut self) {
        world::tok_dropped(self.id);
    }
}

/// Uniform output type of every node so that arbitrary nestings type-check.
#[derive(Debug)]
pub enum Val {
    Tok(Tok),
    List(Vec<Val>),
    Res(Box<Result<Val, Val>>),
    /// enumerate() pairs on concurrent streams
    Pair(usize, Box<Val>),
}

/// A cloneable description of a `Val` (token ids only).
#[derive(Debug, Clone, PartialEq, Eq, Hash)]
pub enum Shape {
    T(u32),
    L(Vec<Shape>),
    Ok(Box<Shape>),
    Err(Box<Shape>),
    P(usize, Box<Shape>),
}

impl Val {
    pub fn shape(&self) -> Shape {
        match self {
            Val::Tok(t) => Shape::T(t.id),
            Val::List(v) => Shape::L(v.iter().map(|x| x.shape()).collect()),
            Val::Res(r) => match &**r {
                Ok(v) => Shape::Ok(Box::new(v.shape())),
                Err(v) => Shape::Err(Box::new(v.shape())),
            },
            Val::Pair(i, v) => Shape::P(*i, Box::new(v.shape())),
        }
    }
}

pub fn res_shape(r: &Result<Val, Val>) -> Shape {
    match r {
        Ok(v) => Shape::Ok(Box::new(v.shape())),
        Err(v) => Shape::Err(Box::new(v.shape())),
    }
}

impl Shape {
    pub fn toks(&self, out: &mut Vec<u32>) {
        match self {
            Shape::T(t) => out.push(*t),
            Shape::L(v) => v.iter().for_each(|s| s.toks(out)),
            Shape::Ok(s) | Shape::Err(s) | Shape::P(_, s) => s.toks(out),
        }
    }
    pub fn show(&self) -> String {
        match self {
            Shape::T(t) => format!("t{}", t),
            Shape::L(v) => format!(
                "[{}]",
                v.iter().map(|s| s.show()).collect::<Vec<_>>().join(",")
            ),
            Shape::Ok(s) => format!("Ok({})", s.show()),
            Shape::Err(s) => format!("Err({})", s.show()),
            Shape::P(i, s) => format!("({},{})", i, s.show()),
        }
    }
}
