//! Harness-owned values. Every value a scripted child produces is a token
//! whose creation and drop are logged in the thread-local `World`.
//!
//! `Val` is deliberately a plain 4-byte handle without any pointer: composite
//! values (lists, results, enumerate pairs) live in the world's table. A
//! combinator bug that reads an uninitialised output slot, drops a value
//! twice or forgets one therefore shows up as a *counted* event ("unknown
//! token dropped", "dropped twice", "leaked") instead of crashing the harness.

use crate::world;

/// Token handles are scrambled indices into the world's token table: a
/// combinator bug that reads an uninitialised slot yields garbage (zeros,
/// small integers, pointer fragments), and garbage must show up as an
/// *unknown* handle rather than be mistaken for some other child's value.
const MUL: u32 = 0x9E37_79B1;
const INV: u32 = 0x0E8B_2F51; // MUL * INV == 1 (mod 2^32)
const ADD: u32 = 0x7F4A_7C15;

pub fn handle_of(index: usize) -> u32 {
    (index as u32).wrapping_mul(MUL).wrapping_add(ADD)
}
pub fn index_of(handle: u32) -> usize {
    handle.wrapping_sub(ADD).wrapping_mul(INV) as usize
}

/// A produced value (plain token or composite). Not `Clone`, not `Copy`.
#[derive(Debug)]
pub struct Val {
    pub id: u32,
}

impl Drop for Val {
    fn drop(&mut self) {
        world::tok_dropped(self.id);
    }
}

#[derive(Clone, Debug, PartialEq, Eq)]
pub enum TokKind {
    Plain,
    List(Vec<u32>),
    Res(bool, u32),
    Pair(usize, u32),
}

/// A cloneable description of a `Val` (token ids only).
#[derive(Debug, Clone, PartialEq, Eq, Hash)]
pub enum Shape {
    T(u32),
    L(Vec<Shape>),
    Ok(Box<Shape>),
    Err(Box<Shape>),
    P(usize, Box<Shape>),
    /// a handle the world knows nothing about (garbage read)
    Unknown(u32),
}

impl Val {
    pub fn list(items: Vec<Val>) -> Val {
        let ids: Vec<u32> = items.iter().map(|v| v.id).collect();
        for v in items {
            std::mem::forget(v); // ownership moves into the composite
        }
        world::new_composite(TokKind::List(ids))
    }
    pub fn res(r: Result<Val, Val>) -> Val {
        let (ok, v) = match r {
            Ok(v) => (true, v),
            Err(v) => (false, v),
        };
        let id = v.id;
        std::mem::forget(v);
        world::new_composite(TokKind::Res(ok, id))
    }
    pub fn pair(i: usize, v: Val) -> Val {
        let id = v.id;
        std::mem::forget(v);
        world::new_composite(TokKind::Pair(i, id))
    }
    pub fn shape(&self) -> Shape {
        world::shape_of(self.id)
    }
}

pub fn res_shape(r: &Result<Val, Val>) -> Shape {
    match r {
        Ok(v) => Shape::Ok(Box::new(v.shape())),
        Err(v) => Shape::Err(Box::new(v.shape())),
    }
}

impl Shape {
    pub fn toks(&self, out: &mut Vec<u32>) {
        match self {
            Shape::T(t) | Shape::Unknown(t) => out.push(*t),
            Shape::L(v) => v.iter().for_each(|s| s.toks(out)),
            Shape::Ok(s) | Shape::Err(s) | Shape::P(_, s) => s.toks(out),
        }
    }
    pub fn has_unknown(&self) -> Option<u32> {
        match self {
            Shape::Unknown(t) => Some(*t),
            Shape::T(_) => None,
            Shape::L(v) => v.iter().find_map(|s| s.has_unknown()),
            Shape::Ok(s) | Shape::Err(s) | Shape::P(_, s) => s.has_unknown(),
        }
    }
    pub fn show(&self) -> String {
        match self {
            Shape::T(t) => format!("t{}", index_of(*t)),
            Shape::Unknown(t) => format!("?{:#x}", t),
            Shape::L(v) => format!(
                "[{}]",
                v.iter().map(|s| s.show()).collect::<Vec<_>>().join(",")
            ),
            Shape::Ok(s) => format!("Ok({})", s.show()),
            Shape::Err(s) => format!("Err({})", s.show()),
            Shape::P(i, s) => format!("({},{})", i, s.show()),
        }
    }
}

#[cfg(test)]
mod tests {
    use super::*;
    #[test]
    fn handle_roundtrip() {
        for i in [0usize, 1, 2, 77, 65_535, 1 << 20] {
            assert_eq!(index_of(handle_of(i)), i);
        }
        // typical garbage is not a valid handle of a small table
        for g in [0u32, 1, 2, 0xFFFF_FFFF, 0x5555_5555, 0x7F00_0000] {
            assert!(index_of(g) > 1 << 16, "{:#x}", g);
        }
    }
}
