//! Per-property generator profiles, non-triviality rules and case budgets for
//! the combinator engine (C01-C10, C16, C17, C19, C20).

use crate::exec::RunOut;
use crate::gen::Profile;
use crate::spec::{Action, Case, ChildSpec, CombSpec};
use crate::world::{Answer, Family, NodeKind, PendKind, Step, World};

#[derive(Clone, Copy, PartialEq, Eq, Debug)]
pub enum Tier {
    Quick,
    Thorough,
}

pub struct CombProp {
    pub id: &'static str,
    pub rule: &'static str,
    pub profile: fn(Tier) -> Profile,
    pub nontrivial: fn(&Case, &RunOut) -> bool,
    /// cases per configuration
    pub cases: fn(Tier) -> u64,
    pub max_len: fn(Tier) -> usize,
}

fn any_leaf(s: &CombSpec, f: &dyn Fn(&crate::spec::LeafSpec) -> bool) -> bool {
    s.children.iter().any(|c| match c {
        ChildSpec::Leaf(l) => f(l),
        ChildSpec::Inner(i) => any_leaf(i, f),
    })
}

fn has_never(s: &CombSpec) -> bool {
    any_leaf(s, &|l| l.script.contains(&Step::Never))
}

fn leaf_pended(w: &World) -> bool {
    w.nodes.iter().any(|n| n.is_leaf() && n.polls.iter().any(|p| p.answer.is_pend()))
}

fn stale_fire(w: &World) -> bool {
    w.nodes.iter().any(|n| {
        let len = n.wakers.len();
        n.is_leaf() && n.wakers.iter().enumerate().any(|(i, wk)| i + 1 < len && !wk.fires.is_empty())
    })
}

fn sib_wake(w: &World) -> bool {
    w.nodes
        .iter()
        .any(|n| n.polls.iter().any(|p| matches!(p.answer, Answer::Pend(PendKind::WakeSib) | Answer::Pend(PendKind::SelfWake))))
}

fn top_family(c: &Case) -> Family {
    c.root.family
}

fn default_len(t: Tier) -> usize {
    match t {
        Tier::Quick => 384,
        Tier::Thorough => 640,
    }
}

fn big_len(t: Tier) -> usize {
    match t {
        Tier::Quick => 384,
        Tier::Thorough => 3000,
    }
}

fn with_big(mut p: Profile, t: Tier) -> Profile {
    p.big_vec = t == Tier::Thorough;
    p
}

// ---------------------------------------------------------------- C01
fn p01(t: Tier) -> Profile {
    let mut p = Profile::base();
    p.p_never = 12;
    with_big(p, t)
}
fn n01(_c: &Case, r: &RunOut) -> bool {
    leaf_pended(&r.world) && (r.waker_changes_while_parked > 0 || sib_wake(&r.world) || stale_fire(&r.world))
}

// ---------------------------------------------------------------- C02
fn p02(t: Tier) -> Profile {
    let mut p = Profile::base();
    p.p_drop = 8;
    p.p_panic = 50;
    p.p_nodrain = 40;
    p.p_never = 20;
    with_big(p, t)
}
fn n02(_c: &Case, r: &RunOut) -> bool {
    if r.injected_panic {
        return true;
    }
    if !r.dropped_early {
        return false;
    }
    // dropped while at least one child had finished and one had not
    let w = &r.world;
    let top = &w.nodes[r.top];
    let Some(dropped) = top.dropped_at else { return false };
    let kids = top.children();
    let fin = kids.iter().any(|&k| matches!(w.nodes[k].finished_at, Some(c) if c < dropped) || !w.nodes[k].items().is_empty());
    let unfin = kids.iter().any(|&k| w.nodes[k].finished_at.is_none());
    fin && unfin && top.finished_at.is_none()
}

// ---------------------------------------------------------------- C03
fn p03(t: Tier) -> Profile {
    let mut p = Profile::base();
    p.p_stale = 110;
    p.max_script = 10;
    p.p_never = 6;
    // p_post stays 0: polling a future after Ready / a stream after None is
    // outside the Future/Stream contract (the real wait_until and other
    // pass-through adapters forward such a poll to their inner stream), so the
    // harness never does it - see DESIGN.md section 7, seeded change C03-b
    with_big(p, t)
}
fn n03(_c: &Case, r: &RunOut) -> bool {
    // some child finished at clock e, a sibling was polled later, and either a
    // stale wake hit the finished child or the configuration is not std
    let w = &r.world;
    for n in &w.nodes {
        let Some(p) = n.parent else { continue };
        let Some(fin) = n.finished_at else { continue };
        let sib_later = w.nodes[p].children().iter().any(|&s| s != n.id && w.nodes[s].polls.iter().any(|pp| pp.begin > fin));
        if !sib_later {
            continue;
        }
        let stale_hit = n.wakers.iter().any(|wk| wk.fires.iter().any(|f| *f > fin));
        if stale_hit || !w.std_cfg {
            return true;
        }
    }
    false
}

// ---------------------------------------------------------------- C20
fn p20(t: Tier) -> Profile {
    let mut p = Profile::base().only(&[
        Family::Join,
        Family::TryJoin,
        Family::Race,
        Family::RaceOk,
        Family::Merge,
        Family::Zip,
        Family::FutGroup,
        Family::StrGroup,
    ]);
    p.p_never = 90;
    with_big(p, t)
}
fn n20(c: &Case, r: &RunOut) -> bool {
    if !has_never(&c.root) {
        return false;
    }
    // >= 1 other child needed a wake-up to finish
    r.world.nodes.iter().any(|n| n.is_leaf() && n.finished_at.is_some() && n.polls.len() >= 2)
}

// ---------------------------------------------------------------- C04..C10
fn fam_profile(f: &[Family], t: Tier) -> Profile {
    let mut p = Profile::base().only(f);
    p.p_nest = 25;
    p.p_never = 4;
    with_big(p, t)
}
fn p04(t: Tier) -> Profile {
    fam_profile(&[Family::Join], t)
}
fn completion_order_differs(w: &World, top: usize) -> bool {
    let kids = w.nodes[top].children();
    let order: Vec<u32> = kids.iter().filter_map(|&k| w.nodes[k].finished_at).collect();
    order.len() >= 2 && order.windows(2).any(|x| x[0] > x[1])
}
fn boundary_len(n: usize) -> bool {
    matches!(n, 0 | 12 | 13 | 16 | 22 | 23 | 24 | 63 | 64 | 65 | 66 | 128 | 129 | 200 | 255 | 256 | 257 | 300 | 1025 | 1100)
}
fn n04(c: &Case, r: &RunOut) -> bool {
    completion_order_differs(&r.world, r.top) || boundary_len(c.root.children.len())
}
fn p05(t: Tier) -> Profile {
    let mut p = fam_profile(&[Family::TryJoin], t);
    p.p_err = 90;
    p
}
fn n05(_c: &Case, r: &RunOut) -> bool {
    // >= 1 failing child and, when the failure is seen, a sibling already
    // finished or still pending after having been polled
    let w = &r.world;
    let top = &w.nodes[r.top];
    let kids = top.children();
    let first_err = kids
        .iter()
        .filter_map(|&k| match w.nodes[k].ready() {
            Some((c, crate::val::Shape::Err(_))) => Some((c, k)),
            _ => None,
        })
        .min();
    match first_err {
        None => false,
        Some((c, k)) => kids.iter().any(|&s| s != k && w.nodes[s].polls.iter().any(|p| p.begin < c)),
    }
}
fn p06(t: Tier) -> Profile {
    let mut p = fam_profile(&[Family::Race], t);
    p.max_script = 4;
    p
}
fn n06(_c: &Case, r: &RunOut) -> bool {
    let w = &r.world;
    let top = &w.nodes[r.top];
    let kids = top.children();
    let Some((c, k)) = kids.iter().filter_map(|&k| w.nodes[k].ready().map(|x| (x.0, k))).min() else {
        return false;
    };
    let winner_polls = w.nodes[k].polls.len();
    // >= 2 children would have been ready in the deciding poll: approximated by
    // "another child's script was exhausted (next answer Ready) at that time"
    let others_ready = kids.iter().any(|&s| {
        s != k
            && match &w.nodes[s].kind {
                NodeKind::Leaf { script, pos, .. } => *pos >= script.len() && w.nodes[s].finished_at.is_none(),
                _ => false,
            }
    });
    let _ = c;
    winner_polls >= 2 || others_ready
}
fn p07(t: Tier) -> Profile {
    let mut p = fam_profile(&[Family::RaceOk], t);
    p.p_err = 170;
    p.max_script = 5;
    p
}
fn n07(c: &Case, r: &RunOut) -> bool {
    if c.root.children.len() < 3 {
        return false;
    }
    let w = &r.world;
    let kids = w.nodes[r.top].children();
    let errs: Vec<u32> = kids
        .iter()
        .filter_map(|&k| match w.nodes[k].ready() {
            Some((c, crate::val::Shape::Err(_))) => Some(c),
            _ => None,
        })
        .collect();
    let out_of_order = errs.windows(2).any(|x| x[0] > x[1]);
    let ok_after_err = kids.iter().any(|&k| matches!(w.nodes[k].ready(), Some((c, crate::val::Shape::Ok(_))) if errs.iter().any(|e| *e < c)));
    out_of_order || ok_after_err
}
fn p08(t: Tier) -> Profile {
    fam_profile(&[Family::Merge], t)
}
fn n08(c: &Case, r: &RunOut) -> bool {
    let n = c.root.children.len();
    if n == 0 {
        return true;
    }
    let w = &r.world;
    let kids = w.nodes[r.top].children();
    let lens: Vec<usize> = kids.iter().map(|&k| w.nodes[k].items().len()).collect();
    let differ = lens.iter().any(|l| *l != lens[0]);
    n >= 2 && differ && leaf_pended(w)
}
fn p09(t: Tier) -> Profile {
    fam_profile(&[Family::Zip], t)
}
fn n09(_c: &Case, r: &RunOut) -> bool {
    let w = &r.world;
    let top = &w.nodes[r.top];
    let kids = top.children();
    if kids.len() < 2 {
        return false;
    }
    let lens: Vec<usize> = kids.iter().map(|&k| w.nodes[k].items().len()).collect();
    let differ = lens.iter().any(|l| *l != lens[0]);
    // a row assembled over >= 2 polls of the zip
    let multi = top.polls.iter().any(|p| {
        matches!(p.answer, Answer::Item(_))
            && kids.iter().any(|&k| w.nodes[k].polls.iter().any(|cp| matches!(cp.answer, Answer::Item(_)) && cp.end < p.begin))
    });
    differ && multi
}
fn p10(t: Tier) -> Profile {
    fam_profile(&[Family::Chain], t)
}
fn n10(c: &Case, _r: &RunOut) -> bool {
    c.root.children.iter().enumerate().any(|(i, ch)| {
        i > 0
            && match ch {
                ChildSpec::Leaf(l) => {
                    l.script.first().map(|s| matches!(s, Step::End | Step::Later | Step::SelfWake | Step::WakeSib(_))).unwrap_or(true)
                }
                _ => false,
            }
    })
}

// ---------------------------------------------------------------- C16
fn p16(t: Tier) -> Profile {
    let mut p = Profile::base().only(&[
        Family::Join,
        Family::TryJoin,
        Family::Merge,
        Family::Zip,
        Family::FutGroup,
        Family::StrGroup,
    ]);
    p.p_spurious_heavy = 120;
    p.p_stale = 90;
    with_big(p, t)
}
fn n16(_c: &Case, r: &RunOut) -> bool {
    // a top-level poll happened while >= 1 child was pending and un-woken
    r.spurious_polls > 0 && leaf_pended(&r.world)
}

// ---------------------------------------------------------------- C17
fn p17(t: Tier) -> Profile {
    let mut p = Profile::base().only(&[Family::Merge]);
    p.p_nest = 0;
    p.p_never = 10;
    p.fair = true;
    p.allow_zero = false;
    p.max_sched = 6;
    with_big(p, t)
}
fn n17(c: &Case, r: &RunOut) -> bool {
    let n = c.root.children.len();
    let w = &r.world;
    let kids = w.nodes[r.top].children();
    n >= 2 && kids.iter().any(|&k| !matches!(&w.nodes[k].kind, NodeKind::Leaf { always: true, .. }) && !w.nodes[k].items().is_empty())
}

// ---------------------------------------------------------------- C19
fn p19(_t: Tier) -> Profile {
    let mut p = Profile::base().only(&[Family::WaitF, Family::WaitS]);
    p.p_nest = 30;
    p.p_spurious_heavy = 100;
    p
}
fn n19(c: &Case, r: &RunOut) -> bool {
    let w = &r.world;
    let kids = w.nodes[r.top].children();
    if kids.len() < 2 {
        return false;
    }
    let d = &w.nodes[kids[1]];
    let pended = d.polls.iter().any(|p| p.answer.is_pend());
    let _ = c;
    pended && r.spurious_polls > 0
}

fn cases_std(t: Tier) -> u64 {
    match t {
        Tier::Quick => 240_000,
        Tier::Thorough => 4_000_000,
    }
}
fn cases_small(t: Tier) -> u64 {
    match t {
        Tier::Quick => 160_000,
        Tier::Thorough => 2_000_000,
    }
}

pub const COMB_PROPS: &[CombProp] = &[
    CombProp { id: "C01", rule: "at least one child answered Pending, and a wake-up arrived while the task was parked on a waker different from the previous poll's, or from inside a child's poll (self/sibling wake), or through a stale waker; distinct = distinct decoded case", profile: p01, nontrivial: n01, cases: cases_std, max_len: big_len },
    CombProp { id: "C02", rule: "the combinator was dropped while at least one child had finished (or yielded) and at least one had not, or a panic was injected into a child's poll; distinct = distinct decoded case", profile: p02, nontrivial: n02, cases: cases_std, max_len: big_len },
    CombProp { id: "C03", rule: "some child finished, a sibling was polled afterwards, and either a stale wake-up hit the finished child or the configuration polls every unfinished child on every poll (alloc-only / no_std); distinct = distinct decoded case", profile: p03, nontrivial: n03, cases: cases_std, max_len: big_len },
    CombProp { id: "C04", rule: "join with >= 2 children completing in an order different from index order, or a length in the boundary set {0,12,16,22,23,24,63..66,128,129,200}; distinct = distinct decoded case", profile: p04, nontrivial: n04, cases: cases_small, max_len: big_len },
    CombProp { id: "C05", rule: "try_join with >= 1 failing child where, when the first failure is seen, a sibling has already been polled (finished or still pending); distinct = distinct decoded case", profile: p05, nontrivial: n05, cases: cases_small, max_len: big_len },
    CombProp { id: "C06", rule: "race whose winner needed >= 2 polls, or in which another child was ready to resolve in the deciding poll; distinct = distinct decoded case", profile: p06, nontrivial: n06, cases: cases_small, max_len: big_len },
    CombProp { id: "C07", rule: "race_ok over >= 3 children with failures out of index order, or a success after >= 1 stored failure; distinct = distinct decoded case", profile: p07, nontrivial: n07, cases: cases_small, max_len: big_len },
    CombProp { id: "C08", rule: "merge of >= 2 inputs of different lengths with >= 1 Pending answer, or of zero inputs; distinct = distinct decoded case", profile: p08, nontrivial: n08, cases: cases_small, max_len: big_len },
    CombProp { id: "C09", rule: "zip of >= 2 inputs of unequal length in which a row was assembled over >= 2 polls; distinct = distinct decoded case", profile: p09, nontrivial: n09, cases: cases_small, max_len: big_len },
    CombProp { id: "C10", rule: "chain with an empty or pending input in a non-first position; distinct = distinct decoded case", profile: p10, nontrivial: n10, cases: cases_small, max_len: big_len },
    CombProp { id: "C16", rule: "a top-level poll happened while the task had not been woken (spurious poll) and >= 1 child was pending; distinct = distinct decoded case", profile: p16, nontrivial: n16, cases: cases_std, max_len: big_len },
    CombProp { id: "C17", rule: "merge of N >= 2 inputs, one of which has an item on every poll, where some other input also yielded; distinct = distinct decoded case", profile: p17, nontrivial: n17, cases: cases_small, max_len: big_len },
    CombProp { id: "C19", rule: "wait_until whose deadline answered Pending at least once and that saw >= 1 spurious poll; distinct = distinct decoded case", profile: p19, nontrivial: n19, cases: cases_small, max_len: default_len },
    CombProp { id: "C20", rule: ">= 1 never-completing child and >= 1 other child that needed a wake-up (>= 2 polls) to finish; distinct = distinct decoded case", profile: p20, nontrivial: n20, cases: cases_std, max_len: big_len },
];

/// number of storm cases (wakers invoked concurrently from helper threads)
/// per std configuration
pub fn storm_cases(t: Tier) -> u64 {
    match t {
        Tier::Quick => 100_000,
        Tier::Thorough => 3_000_000,
    }
}

pub fn comb_prop(id: &str) -> Option<&'static CombProp> {
    COMB_PROPS.iter().find(|p| p.id == id)
}

/// classification labels of a finished run (for the evidence histogram)
pub fn labels(c: &Case, r: &RunOut) -> Vec<&'static str> {
    let mut l = Vec::new();
    let w = &r.world;
    if r.waker_changes_while_parked > 0 {
        l.push("parent_waker_changed_while_parked");
    }
    if r.spurious_polls > 0 {
        l.push("spurious_poll");
    }
    if stale_fire(w) {
        l.push("stale_wake");
    }
    if sib_wake(w) {
        l.push("wake_during_poll");
    }
    if r.dropped_early {
        l.push("dropped_by_schedule");
    }
    if r.injected_panic {
        l.push("panic_injected");
    }
    if r.quiescent {
        l.push("quiescent_pending");
    }
    if has_never(&c.root) {
        l.push("never_child");
    }
    if c.root.depth() > 1 {
        l.push("nested");
    }
    if c.root.depth() > 2 {
        l.push("nested_two_levels");
    }
    if c.storm {
        l.push("concurrent_wakes_from_helper_threads");
    }
    if r.world.post_panic.is_some() {
        l.push("polled_on_after_a_caught_panic");
    }
    if c.schedule.iter().any(|a| matches!(a, Action::Fire { thread: true, .. })) {
        l.push("wake_from_thread");
    }
    if w.nodes[r.top].finished_at.is_some() {
        l.push("completed");
    }
    if r.inconclusive.is_some() {
        l.push("inconclusive");
    }
    l.push(match top_family(c) {
        Family::Join => "fam_join",
        Family::TryJoin => "fam_try_join",
        Family::Race => "fam_race",
        Family::RaceOk => "fam_race_ok",
        Family::Merge => "fam_merge",
        Family::Zip => "fam_zip",
        Family::Chain => "fam_chain",
        Family::FutGroup => "fam_future_group",
        Family::StrGroup => "fam_stream_group",
        Family::WaitF | Family::WaitS => "fam_wait_until",
        Family::Co => "fam_co",
    });
    l.push(match c.root.container {
        crate::world::Container::Tuple => "tuple",
        crate::world::Container::Array => "array",
        crate::world::Container::Vec => "vec",
        crate::world::Container::Ext => "ext_method",
        _ => "group",
    });
    if c.root.children.len() > 12 {
        l.push("len_gt_12");
    }
    match c.root.variant {
        1 => l.push("children_without_drop_glue"),
        2 => l.push("values_without_drop_glue"),
        3 => l.push("errors_without_drop_glue"),
        5 => l.push("zero_sized_values"),
        4 => l.push("heterogeneous_tuple"),
        _ => {}
    }
    l
}

// ---------------------------------------------------------------- C11, C12
#[cfg(feature = "has-alloc")]
pub struct GroupProp {
    pub id: &'static str,
    pub rule: &'static str,
    pub profile: fn(Tier) -> crate::groups::GroupProfile,
    pub cases: fn(Tier) -> u64,
    pub max_len: fn(Tier) -> usize,
}

#[cfg(feature = "has-alloc")]
fn gp(fam: Family, t: Tier) -> crate::groups::GroupProfile {
    let mut base = Profile::base();
    base.p_never = 8;
    base.p_nodrain = 10;
    base.max_script = 6;
    crate::groups::GroupProfile {
        fam,
        base,
        max_ops: if t == Tier::Quick { 40 } else { 120 },
        p_drop: 1,
        p_nest: 14,
    }
}
/// group-history share of the cross-cutting properties
#[cfg(feature = "has-alloc")]
pub fn group_share(prop: &str, fam: Family, t: Tier) -> crate::groups::GroupProfile {
    let mut g = gp(fam, t);
    g.max_ops = if t == Tier::Quick { 30 } else { 80 };
    match prop {
        "C02" => {
            g.p_drop = 6;
            g.base.p_nodrain = 40;
            g.base.p_never = 20;
        }
        "C03" => g.base.p_stale = 110,
        "C16" => {
            g.base.p_spurious_heavy = 120;
            g.base.p_stale = 90;
        }
        "C20" => g.base.p_never = 90,
        _ => {}
    }
    g
}
#[cfg(feature = "has-alloc")]
fn gp11(t: Tier) -> crate::groups::GroupProfile {
    gp(Family::FutGroup, t)
}
#[cfg(feature = "has-alloc")]
fn gp12(t: Tier) -> crate::groups::GroupProfile {
    gp(Family::StrGroup, t)
}
#[cfg(feature = "has-alloc")]
fn group_cases(t: Tier) -> u64 {
    match t {
        Tier::Quick => 160_000,
        Tier::Thorough => 3_000_000,
    }
}
#[cfg(feature = "has-alloc")]
fn group_len(t: Tier) -> usize {
    match t {
        Tier::Quick => 700,
        Tier::Thorough => 2400,
    }
}

#[cfg(feature = "has-alloc")]
pub const GROUP_PROPS: &[GroupProp] = &[
    GroupProp { id: "C11", rule: "operation history on a FutureGroup (plain or keyed) that contains an insert re-using the key of a removed/finished member, or growth of the group (insert/reserve/extend raising capacity) while a member is pending, or a refill after the group returned None; distinct = distinct decoded history", profile: gp11, cases: group_cases, max_len: group_len },
    GroupProp { id: "C12", rule: "operation history on a StreamGroup (plain or keyed) that contains an insert re-using the key of a removed/ended member, or growth while a member is pending, or a refill after None, or two or more members ending in the same poll; distinct = distinct decoded history", profile: gp12, cases: group_cases, max_len: group_len },
];

#[cfg(feature = "has-alloc")]
pub fn group_prop(id: &str) -> Option<&'static GroupProp> {
    GROUP_PROPS.iter().find(|p| p.id == id)
}

// ---------------------------------------------------------------- C13, C14, C15 (+ co share of C02, C03)
#[cfg(feature = "with-co")]
pub struct CoProp {
    pub id: &'static str,
    pub rule: &'static str,
    pub profile: fn(Tier) -> crate::costream::CoProfile,
    pub cases: fn(Tier) -> u64,
    pub max_len: fn(Tier) -> usize,
}

#[cfg(feature = "with-co")]
fn co_base() -> Profile {
    let mut b = Profile::base();
    b.p_never = 6;
    b.p_nodrain = 8;
    b.p_err = 0;
    b.max_sched = 30;
    b
}
#[cfg(feature = "with-co")]
fn cp13(_t: Tier) -> crate::costream::CoProfile {
    use crate::costream::Terminal::*;
    crate::costream::CoProfile { base: co_base(), terminals: vec![(ForEach, 10)], adapters: [25, 20, 0, 55], p_drop: 5, p_src_vec: 90, saturate: true }
}
#[cfg(feature = "with-co")]
fn cp14(_t: Tier) -> crate::costream::CoProfile {
    use crate::costream::Terminal::*;
    let mut base = co_base();
    base.p_err = 56;
    crate::costream::CoProfile { base, terminals: vec![(TryForEach, 55), (CollectResult, 45)], adapters: [25, 15, 8, 52], p_drop: 4, p_src_vec: 90, saturate: true }
}
#[cfg(feature = "with-co")]
fn cp15(_t: Tier) -> crate::costream::CoProfile {
    use crate::costream::Terminal::*;
    let mut base = co_base();
    base.p_err = 14;
    crate::costream::CoProfile { base, terminals: vec![(CollectVec, 50), (ForEach, 25), (TryForEach, 25)], adapters: [30, 25, 27, 18], p_drop: 2, p_src_vec: 100, saturate: false }
}
/// concurrent-stream share of C02: drops at any point, one injected panic
#[cfg(feature = "with-co")]
pub fn cp02(_t: Tier) -> crate::costream::CoProfile {
    use crate::costream::Terminal::*;
    let mut base = co_base();
    base.p_err = 30;
    base.p_panic = 50;
    base.p_nodrain = 40;
    base.p_never = 16;
    crate::costream::CoProfile { base, terminals: vec![(CollectVec, 25), (ForEach, 30), (TryForEach, 25), (CollectResult, 20)], adapters: [30, 20, 20, 30], p_drop: 8, p_src_vec: 100, saturate: false }
}
/// concurrent-stream share of C03: the source is not polled after None, work
/// futures not after Ready, nothing outside the operation's own poll
#[cfg(feature = "with-co")]
pub fn cp03(_t: Tier) -> crate::costream::CoProfile {
    use crate::costream::Terminal::*;
    let mut base = co_base();
    base.p_err = 20;
    base.p_stale = 110;
    crate::costream::CoProfile { base, terminals: vec![(CollectVec, 25), (ForEach, 30), (TryForEach, 25), (CollectResult, 20)], adapters: [30, 20, 20, 30], p_drop: 2, p_src_vec: 40, saturate: false }
}
#[cfg(feature = "with-co")]
fn co_cases(t: Tier) -> u64 {
    match t {
        Tier::Quick => 160_000,
        Tier::Thorough => 3_000_000,
    }
}
#[cfg(feature = "with-co")]
fn co_len(t: Tier) -> usize {
    match t {
        Tier::Quick => 420,
        Tier::Thorough => 520,
    }
}

#[cfg(feature = "with-co")]
pub const CO_PROPS: &[CoProp] = &[
    CoProp { id: "C13", rule: "for_each with a finite concurrency limit, more source items than the limit, and at least one closure future that stayed pending across >= 2 polls of the operation (so back-pressure in the consumer was exercised); distinct = distinct decoded case", profile: cp13, cases: co_cases, max_len: co_len },
    CoProp { id: "C14", rule: "try_for_each / collect::<Result<Vec<_>,_>> in which a closure (item) future resolved Err while at least one other closure future that had been polled was still in flight; distinct = distinct decoded case", profile: cp14, cases: co_cases, max_len: co_len },
    CoProp { id: "C15", rule: "at least one closure invocation and either an adapter stack of depth >= 2 or a closure stage whose futures completed in an order different from source order; distinct = distinct decoded case", profile: cp15, cases: co_cases, max_len: co_len },
];

#[cfg(feature = "with-co")]
pub fn co_prop(id: &str) -> Option<&'static CoProp> {
    CO_PROPS.iter().find(|p| p.id == id)
}
