use fcv::driver::{self, Engine};
use fcv::props::Tier;
use fcv::{crash, engine_for, regress, storm_engine_for};


fn arg(args: &[String], name: &str) -> Option<String> {
    args.iter().position(|a| a == name).and_then(|i| args.get(i + 1).cloned())
}

fn silent_panics() {
    if std::env::var("FCV_PANIC_VERBOSE").is_err() {
        std::panic::set_hook(Box::new(|_| {}));
    }
}

fn main() {
    let args: Vec<String> = std::env::args().collect();
    let cmd = args.get(1).map(|s| s.as_str()).unwrap_or("");
    match cmd {
        "run" => {
            silent_panics();
            let prop = arg(&args, "--prop").expect("--prop");
            let tier = match arg(&args, "--tier").as_deref() {
                Some("thorough") => Tier::Thorough,
                _ => Tier::Quick,
            };
            let seed: u64 = arg(&args, "--seed").and_then(|s| s.parse().ok()).unwrap_or(1);
            let threads: usize = arg(&args, "--threads").and_then(|s| s.parse().ok()).unwrap_or(16);
            let out = arg(&args, "--out");
            let replay_dir = arg(&args, "--replay-dir").unwrap_or_else(|| "/verif/replays".into());
            let hang: u64 = arg(&args, "--hang-secs").and_then(|s| s.parse().ok()).unwrap_or(120);
            let Some((engine, rule, mut cases, max_len, id)) = engine_for(&prop, tier) else {
                eprintln!("unknown property {}", prop);
                std::process::exit(2);
            };
            if let Some(c) = arg(&args, "--cases").and_then(|s| s.parse().ok()) {
                cases = c;
            }
            let t0 = std::time::Instant::now();
            let ename = engine.name();
            let _ = std::fs::create_dir_all(&replay_dir);
            crash::install(&format!("{}/crash-{}-{}.bin", replay_dir, id, driver::config_name()));
            // plain regression cases first (they bypass proptest and the decoder)
            let mut regress_failure = None;
            let reg = regress::cases(id, tier);
            let n_regress = reg.len();
            for rc in reg {
                // on a thread with a large stack: some cases move big arrays around
                let rc_name = rc.name.clone();
                let run = rc.run;
                let ev = std::thread::Builder::new().stack_size(512 << 20).spawn(move || run(true)).unwrap().join();
                let ev = match ev {
                    Ok(e) => e,
                    Err(_) => {
                        println!("INFRA: a regression case panicked inside the harness");
                        std::process::exit(2);
                    }
                };
                let msgs: Vec<String> =
                    ev.violations.iter().filter(|v| v.oracle.property() == id).map(|v| format!("{:?}: {}", v.oracle, v.msg)).collect();
                if !msgs.is_empty() {
                    regress_failure = Some((rc_name.clone(), driver::Failure { bytes: Vec::new(), show: ev.show, messages: msgs, trace: ev.trace }));
                    break;
                }
            }
            let mut r = if regress_failure.is_some() {
                driver::RunResult { stats: driver::Stats::default(), failure: None }
            } else {
                // saved inputs of this property (one hex string per line, `-` for the empty input,
                // `#` starts a comment): evaluated before the generated cases
                let corpus: Vec<Vec<u8>> = arg(&args, "--corpus")
                    .and_then(|p| std::fs::read_to_string(p).ok())
                    .map(|t| {
                        t.lines()
                            .filter_map(|l| {
                                let tok = l.split('#').next().unwrap_or("").split_whitespace().next()?;
                                Some(if tok == "-" { Vec::new() } else { driver::unhex(tok) })
                            })
                            .collect()
                    })
                    .unwrap_or_default();
                driver::run(engine, id, seed, cases, threads, max_len, hang, &replay_dir, &corpus)
            };
            r.stats.regress_cases = n_regress as u64;
            let mut storm_failed = false;
            // storm phase: the same property with wakers invoked by helper
            // threads; few task threads, so that every helper has a core
            if r.failure.is_none() && regress_failure.is_none() && std::env::var("FCV_NO_STORM").is_err() {
                if let Some((se, mut scases, slen)) = storm_engine_for(&prop, tier) {
                    if let Some(c) = arg(&args, "--storm-cases").and_then(|s| s.parse().ok()) {
                        scases = c;
                    }
                    let sthreads: usize = std::env::var("FCV_STORM_THREADS").ok().and_then(|s| s.parse().ok()).unwrap_or(5);
                    if scases > 0 {
                        driver::STORM_PHASE.store(true, std::sync::atomic::Ordering::SeqCst);
                        crash::install(&format!("{}/crash-{}-{}.storm.bin", replay_dir, id, driver::config_name()));
                        let sr = driver::run(se, id, seed ^ 0x5707, scases, sthreads, slen, hang, &replay_dir, &[]);
                        let st = sr.stats;
                        r.stats.evaluations += st.evaluations;
                        r.stats.nontrivial_evals += st.nontrivial_evals;
                        r.stats.distinct.extend(st.distinct);
                        for (k, v) in st.labels {
                            *r.stats.labels.entry(k).or_default() += v;
                        }
                        for (k, v) in st.inconclusive {
                            *r.stats.inconclusive.entry(k).or_default() += v;
                        }
                        for (k, v) in st.other_signals {
                            *r.stats.other_signals.entry(k).or_default() += v;
                        }
                        for (k, v) in st.other_examples {
                            r.stats.other_examples.entry(k).or_insert(v);
                        }
                        if r.stats.samples.len() < 8 {
                            r.stats.samples.extend(st.samples.into_iter().take(2));
                        }
                        if sr.failure.is_some() {
                            storm_failed = true;
                        }
                        r.failure = sr.failure;
                    }
                }
            }
            let wall = t0.elapsed().as_secs_f64();
            let mut replay = r.failure.as_ref().map(|f| driver::write_replay(&replay_dir, id, if storm_failed { "storm" } else { ename }, f));
            if let Some((name, f)) = regress_failure {
                replay = Some(driver::write_regress_replay(&replay_dir, id, &name, &f));
                r.failure = Some(f);
            }
            let tier_s = if tier == Tier::Quick { "quick" } else { "thorough" };
            let frag = driver::fragment_json(id, tier_s, seed, ename, rule, &r, wall, replay.as_deref());
            if let Some(o) = out {
                std::fs::write(&o, &frag).expect("write fragment");
            } else {
                print!("{}", frag);
            }
            if let Some(f) = &r.failure {
                for m in &f.messages {
                    println!("  {}", m);
                }
                println!("  case: {}", f.show);
                println!("VIOLATION property={} replay={}", id, replay.unwrap());
                std::process::exit(1);
            }
        }
        "replay" => {
            silent_panics();
            let file = arg(&args, "--file").expect("--file");
            let text = std::fs::read_to_string(&file).expect("read replay");
            let get = |k: &str| -> Option<String> {
                let pat = format!("\"{}\":", k);
                let i = text.find(&pat)? + pat.len();
                let rest = text[i..].trim_start();
                let rest = rest.strip_prefix('"')?;
                let j = rest.find('"')?;
                Some(rest[..j].to_string())
            };
            let prop = arg(&args, "--prop").or_else(|| get("property")).expect("property");
            if let Some(name) = get("regress") {
                crash::install("");
                let Some(rc) = regress::cases(&prop, Tier::Thorough).into_iter().find(|r| r.name == name) else {
                    eprintln!("unknown regression case {}", name);
                    std::process::exit(2);
                };
                let run = rc.run;
                let ev = std::thread::Builder::new().stack_size(512 << 20).spawn(move || run(true)).unwrap().join().unwrap_or_else(|_| {
                    println!("INFRA: the regression case panicked inside the harness");
                    std::process::exit(2)
                });
                println!("case: {}", ev.show);
                for l in &ev.trace {
                    println!("{}", l);
                }
                let mut bad = false;
                for v in &ev.violations {
                    let mine = v.oracle.property() == prop;
                    println!("{} {:?}: {}", if mine { "VIOLATED" } else { "(other property)" }, v.oracle, v.msg);
                    bad |= mine;
                }
                if bad {
                    println!("VIOLATION property={} replay={}", prop, file);
                    std::process::exit(1);
                }
                println!("no violation of {} on this tree", prop);
                return;
            }
            let bytes = driver::unhex(&get("bytes").expect("bytes"));
            let tier = match arg(&args, "--tier").as_deref() {
                Some("thorough") => Tier::Thorough,
                _ => Tier::Quick,
            };
            let Some((mut engine, _rule, _c, _l, id)) = engine_for(&prop, tier) else {
                eprintln!("unknown property {}", prop);
                std::process::exit(2);
            };
            crash::install("");
            // a storm case depends on how the helper threads happen to be
            // scheduled: repeat it until the violation shows again (bounded)
            let storm = get("engine").as_deref() == Some("storm");
            let mut ev = None;
            if storm {
                let Some((se, _, _)) = storm_engine_for(&prop, tier) else {
                    eprintln!("no storm engine for {} in this configuration", prop);
                    std::process::exit(2);
                };
                engine = se;
                let reps: usize = arg(&args, "--repeat").and_then(|s| s.parse().ok()).unwrap_or(20_000);
                for i in 0..reps {
                    let e = engine.eval(&bytes, true);
                    if e.violations.iter().any(|v| v.oracle.property() == id) {
                        println!("(storm case: violation reproduced in repetition {})", i + 1);
                        ev = Some(e);
                        break;
                    }
                }
                if ev.is_none() {
                    println!("(storm case: {} repetitions without a violation)", reps);
                }
            }
            let ev = match ev {
                Some(e) => e,
                None => engine.eval(&bytes, true),
            };
            println!("case: {}", ev.show);
            for l in &ev.trace {
                println!("{}", l);
            }
            let mut bad = false;
            for v in &ev.violations {
                let mine = v.oracle.property() == id;
                println!("{} {:?}: {}", if mine { "VIOLATED" } else { "(other property)" }, v.oracle, v.msg);
                bad |= mine;
            }
            if bad {
                println!("VIOLATION property={} replay={}", id, file);
                std::process::exit(1);
            }
            println!("no violation of {} on this tree", id);
        }
        "miri" => {
            // single-threaded, proptest-free loop for `cargo miri run`: cases
            // are decoded from a xorshift byte stream; every case is announced
            // before it runs so that a Miri abort identifies it
            silent_panics();
            let prop = arg(&args, "--prop").expect("--prop");
            let seed: u64 = arg(&args, "--seed").and_then(|s| s.parse().ok()).unwrap_or(1);
            let count: usize = arg(&args, "--cases").and_then(|s| s.parse().ok()).unwrap_or(100);
            let Some((engine, _rule, _c, max_len, id)) = engine_for(&prop, Tier::Quick) else {
                std::process::exit(2);
            };
            let max_len = max_len.min(160);
            let mut x = seed.wrapping_mul(0x9E3779B97F4A7C15) | 1;
            let mut next = move || {
                x ^= x << 13;
                x ^= x >> 7;
                x ^= x << 17;
                x
            };
            let mut nontrivial = 0usize;
            for i in 0..count {
                let len = (next() as usize) % max_len;
                let bytes: Vec<u8> = (0..len).map(|_| (next() >> 24) as u8).collect();
                println!("case {} {}", i, driver::hex(&bytes));
                let ev = engine.eval(&bytes, false);
                if ev.nontrivial {
                    nontrivial += 1;
                }
                if let Some(v) = ev.violations.iter().find(|v| v.oracle.property() == id) {
                    println!("VIOLATED {:?}: {}", v.oracle, v.msg);
                    println!("shown: {}", ev.show);
                    std::process::exit(1);
                }
            }
            println!("miri-done cases={} nontrivial={}", count, nontrivial);
        }
        "decode" => {
            // print the decoded case of a replay / hang file without running it
            let file = arg(&args, "--file").expect("--file");
            let text = std::fs::read_to_string(&file).expect("read replay");
            let get = |k: &str| -> Option<String> {
                let pat = format!("\"{}\":", k);
                let i = text.find(&pat)? + pat.len();
                let rest = text[i..].trim_start();
                let rest = rest.strip_prefix('"')?;
                let j = rest.find('"')?;
                Some(rest[..j].to_string())
            };
            let prop = arg(&args, "--prop").or_else(|| get("property")).expect("property");
            let bytes = driver::unhex(&get("bytes").expect("bytes"));
            let storm = get("engine").as_deref() == Some("storm");
            let e = if storm { storm_engine_for(&prop, Tier::Quick).map(|x| x.0) } else { engine_for(&prop, Tier::Quick).map(|x| x.0) };
            match e {
                Some(e) => println!("case: {}", e.describe(&bytes)),
                None => std::process::exit(2),
            }
        }
        "show" => {
            silent_panics();
            let prop = arg(&args, "--prop").expect("--prop");
            let seed: u64 = arg(&args, "--seed").and_then(|s| s.parse().ok()).unwrap_or(1);
            let count: usize = arg(&args, "--count").and_then(|s| s.parse().ok()).unwrap_or(5);
            let Some((engine, _rule, _c, max_len, _id)) = engine_for(&prop, Tier::Quick) else {
                std::process::exit(2);
            };
            let mut x = seed.wrapping_mul(0x9E3779B97F4A7C15) | 1;
            for _ in 0..count {
                let mut bytes = Vec::new();
                x ^= x << 13;
                x ^= x >> 7;
                x ^= x << 17;
                let len = (x as usize) % max_len;
                for _ in 0..len {
                    x ^= x << 13;
                    x ^= x >> 7;
                    x ^= x << 17;
                    bytes.push((x >> 24) as u8);
                }
                let ev = engine.eval(&bytes, true);
                println!("case: {}", ev.show);
                for l in &ev.trace {
                    println!("{}", l);
                }
                for v in &ev.violations {
                    println!("  VIOL {:?}: {}", v.oracle, v.msg);
                }
                println!("  nontrivial={} labels={:?}\n", ev.nontrivial, ev.labels);
            }
        }
        _ => {
            eprintln!("usage: fcv run|replay|show ...");
            std::process::exit(2);
        }
    }
}
