//! Plain regression cases: every confirmed finding (and every shrunk failure
//! found while building the checks) as a hand-written structured case that
//! bypasses proptest and the byte decoder. Run first by every tier.

use crate::driver::Eval;
use crate::props::Tier;
use crate::spec::{Case, ChildSpec, CombSpec, LeafSpec};
use crate::world::{Container, Family, Step};

pub struct Regress {
    pub name: String,
    pub run: Box<dyn Fn(bool) -> Eval + Send>,
}

fn leaf(script: &[Step]) -> ChildSpec {
    ChildSpec::Leaf(LeafSpec { script: script.to_vec(), always: false, hint: 0, dropwake: false })
}

fn comb_case(family: Family, container: Container, children: Vec<ChildSpec>) -> Case {
    Case { root: CombSpec { family, container, children, variant: 0 }, schedule: vec![], drain: vec![0; 8], no_drain: false, fair_polls: 0, post_polls: 0, storm: false, unwind_drop: false, repoll_after_panic: false }
}

fn comb(prop: &'static str, name: &str, case: Case) -> Regress {
    let p = crate::props::comb_prop(prop).unwrap();
    Regress {
        name: name.to_string(),
        run: Box::new(move |trace| crate::engine_comb::CombEngine::new(p, Tier::Quick).eval_case(&case, trace)),
    }
}

#[cfg(feature = "with-co")]
fn co(prop: &'static str, name: String, case: crate::costream::CoCase) -> Regress {
    let p = crate::props::co_prop(prop).unwrap();
    Regress {
        name,
        run: Box::new(move |trace| crate::costream::CoEngine { prop: p.id, profile: (p.profile)(Tier::Quick) }.eval_case(&case, trace)),
    }
}

pub fn cases(prop: &str, tier: Tier) -> Vec<Regress> {
    let _ = tier;
    let mut v = Vec::new();
    match prop {
        "C08" => {
            // F1: merge of zero inputs must return None on the first poll
            v.push(comb("C08", "F1-merge-array-zero-inputs", comb_case(Family::Merge, Container::Array, vec![])));
            #[cfg(feature = "has-alloc")]
            v.push(comb("C08", "F1-merge-vec-zero-inputs", comb_case(Family::Merge, Container::Vec, vec![])));
            v.push(comb("C08", "merge-tuple-zero-inputs", comb_case(Family::Merge, Container::Tuple, vec![])));
        }
        #[cfg(feature = "with-co")]
        "C15" => {
            use crate::costream::{Adapter, CoCase, SourceKind, Terminal};
            // F2: take(0) must process no item at all
            let ready = || LeafSpec { script: vec![Step::Yield(true)], always: false, hint: 0, dropwake: false };
            for source in [SourceKind::Co, SourceKind::Vec] {
                for terminal in [Terminal::CollectVec, Terminal::ForEach, Terminal::TryForEach] {
                    for (sname, stack) in [
                        ("take0", vec![Adapter::Take(0)]),
                        ("map.take0", vec![Adapter::Map, Adapter::Take(0)]),
                        ("take0.map", vec![Adapter::Take(0), Adapter::Map]),
                        ("enumerate.take0.limit1", vec![Adapter::Enumerate, Adapter::Take(0), Adapter::Limit(1)]),
                        ("take2.take0", vec![Adapter::Take(2), Adapter::Take(0)]),
                    ] {
                        let n = 3;
                        let mut work: Vec<Vec<LeafSpec>> = stack.iter().map(|a| if *a == Adapter::Map { (0..n).map(|_| ready()).collect() } else { Vec::new() }).collect();
                        work.push(if terminal == Terminal::CollectVec { Vec::new() } else { (0..n).map(|_| ready()).collect() });
                        let case = CoCase {
                            source,
                            src_script: vec![Step::Yield(true); n],
                            src_hint: 0,
                            stack: stack.clone(),
                            terminal,
                            work,
                            schedule: vec![],
                            drain: vec![0; 8],
                            no_drain: false,
                            endless: false,
                        };
                        v.push(co("C15", format!("F2-{:?}-{}-{:?}", source, sname, terminal), case));
                    }
                }
            }
            // F3: collect() must not pre-allocate by the UPPER bound of the size hint:
            // (0, Some(usize::MAX)) is an honest hint of any stream, and the exact one of
            // a long range of which take(n) uses three items
            for (sname, stack) in [
                ("collect", vec![]),
                ("enumerate", vec![Adapter::Enumerate]),
                ("take2", vec![Adapter::Take(2)]),
                ("map.limit1", vec![Adapter::Map, Adapter::Limit(1)]),
            ] {
                let n = 3;
                let mut work: Vec<Vec<LeafSpec>> = stack.iter().map(|a| if *a == Adapter::Map { (0..n).map(|_| ready()).collect() } else { Vec::new() }).collect();
                work.push(Vec::new());
                let case = CoCase {
                    source: SourceKind::Co,
                    src_script: vec![Step::Yield(true); n],
                    src_hint: 3,
                    stack: stack.clone(),
                    terminal: Terminal::CollectVec,
                    work,
                    schedule: vec![],
                    drain: vec![0; 8],
                    no_drain: false,
                    endless: false,
                };
                v.push(co("C15", format!("F3-{}-source-with-huge-upper-bound", sname), case));
            }
            // F3, second manifestation: take(2) of a source that never ends and says so
            for (sname, stack) in [("take2", vec![Adapter::Take(2)]), ("enumerate.take2", vec![Adapter::Enumerate, Adapter::Take(2)])] {
                let n = 3;
                let mut work: Vec<Vec<LeafSpec>> = stack.iter().map(|_| Vec::new()).collect();
                work.push(Vec::new());
                let case = CoCase {
                    source: SourceKind::Co,
                    src_script: vec![Step::Yield(true); n],
                    src_hint: 0,
                    stack: stack.clone(),
                    terminal: Terminal::CollectVec,
                    work,
                    schedule: vec![],
                    drain: vec![0; 8],
                    no_drain: false,
                    endless: true,
                };
                v.push(co("C15", format!("F3-{}-of-an-endless-source", sname), case));
            }
        }
        "C02" => {
            // a child's poll panics, the caller catches the panic and goes on
            // polling: whatever the combinator does then, it must not hand out a
            // value that no child produced, nor leak or double-drop anything
            for container in [Container::Array, Container::Tuple] {
                let mut case = comb_case(Family::Join, container, vec![leaf(&[Step::Later]), leaf(&[Step::Panic]), leaf(&[Step::Later, Step::Later])]);
                case.repoll_after_panic = true;
                v.push(comb("C02", &format!("join-{:?}-child-panics-caller-polls-on", container), case));
            }
            #[cfg(feature = "has-alloc")]
            {
                let mut case = comb_case(Family::Join, Container::Vec, vec![leaf(&[Step::Later]), leaf(&[Step::Panic]), leaf(&[Step::Later, Step::Later])]);
                case.repoll_after_panic = true;
                v.push(comb("C02", "join-Vec-child-panics-caller-polls-on", case));
            }
        }
        #[cfg(feature = "with-co")]
        "C14" => {
            use crate::costream::{CoCase, SourceKind, Terminal};
            // F3: collect::<Result<Vec<_>,_>>() must not pre-allocate by the UPPER bound of
            // the size hint ((0, Some(usize::MAX)) is an honest hint of any stream)
            let ready = || LeafSpec { script: vec![Step::Yield(true)], always: false, hint: 0, dropwake: false };
            let n = 3;
            let case = CoCase {
                source: SourceKind::Co,
                src_script: vec![Step::Yield(true); n],
                src_hint: 3,
                stack: vec![],
                terminal: Terminal::CollectResult,
                work: vec![(0..n).map(|_| ready()).collect()],
                schedule: vec![],
                drain: vec![0; 8],
                no_drain: false,
                endless: false,
            };
            v.push(co("C14", "F3-collect-result-source-with-huge-upper-bound".to_string(), case));
        }
        "C17" => {
            // rotation state that only goes wrong after very many polls (a
            // counter that wraps at 2^8 or 2^16), or for very many inputs
            let always = || ChildSpec::Leaf(LeafSpec { script: vec![], always: true, hint: 0, dropwake: false });
            let long = |c: Container, n: usize, polls: u32| {
                let mut case = comb_case(Family::Merge, c, (0..n).map(|_| always()).collect());
                case.fair_polls = polls;
                case
            };
            v.push(comb("C17", "long-run-tuple3-70000-polls", long(Container::Tuple, 3, 70_000)));
            v.push(comb("C17", "long-run-array5-70000-polls", long(Container::Array, 5, 70_000)));
            #[cfg(feature = "has-alloc")]
            {
                v.push(comb("C17", "long-run-vec3-70000-polls", long(Container::Vec, 3, 70_000)));
                v.push(comb("C17", "vec-300-inputs-900-polls", long(Container::Vec, 300, 900)));
                v.push(comb("C17", "vec-65537-inputs-131100-polls", long(Container::Vec, 65_537, 131_100)));
            }
        }
        _ => {}
    }
    if prop == "C08" {
        // an *array* of more inputs than a two-byte counter can hold
        let one = || leaf(&[Step::Yield(true)]);
        v.push(comb("C08", "merge-array-65537-inputs-one-item-each", comb_case(Family::Merge, Container::Array, (0..65_537).map(|_| one()).collect())));
    }
    #[cfg(feature = "has-alloc")]
    if prop == "C08" {
        // a merge of more inputs than a two-byte counter can hold
        let one = || leaf(&[Step::Yield(true)]);
        v.push(comb("C08", "merge-vec-65539-inputs-one-item-each", comb_case(Family::Merge, Container::Vec, (0..65_539).map(|_| one()).collect())));
    }
    v
}
