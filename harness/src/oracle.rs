//! Oracles evaluated on the observed trace. None re-implements a combinator;
//! each states a relation between what the scripted children answered and
//! what the combinator answered.

use crate::val::Shape;
use crate::world::{self, Answer, Family, Flavor, NodeId, NodeKind, Oracle, PollRec, World};

fn own_flavor(w: &World, id: NodeId) -> Flavor {
    match &w.nodes[id].kind {
        NodeKind::Leaf { flavor, .. } => *flavor,
        NodeKind::Comb { family, .. } => family.own_flavor(),
    }
}

/// The shape of a child's answer as the parent sees it (harness-side
/// conversions between plain and Result futures applied).
fn seen(w: &World, parent: NodeId, child: NodeId, s: &Shape) -> Shape {
    let pf = w.nodes[parent].family().unwrap();
    // wait_until: child 0 keeps its flavour, child 1 (deadline) is F
    let want = match pf {
        Family::WaitF | Family::WaitS => return s.clone(),
        f => f.child_flavor(),
    };
    let have = own_flavor(w, child);
    match (want, have) {
        (Flavor::R, Flavor::F) => Shape::Ok(Box::new(s.clone())),
        _ => s.clone(),
    }
}

fn child_ready(w: &World, parent: NodeId, child: NodeId) -> Option<(u32, Shape)> {
    w.nodes[child].ready().map(|(c, s)| (c, seen(w, parent, child, &s)))
}

fn within(p: &PollRec, clock: u32) -> bool {
    clock >= p.begin && clock <= p.end
}

fn first_poll_begin(w: &World, id: NodeId) -> Option<u32> {
    w.nodes[id].polls.first().map(|p| p.begin)
}

fn polls_after(w: &World, kids: &[NodeId], clock: u32) -> Option<NodeId> {
    kids.iter()
        .cloned()
        .find(|&k| w.nodes[k].polls.iter().any(|p| p.begin > clock))
}

fn v(w: &mut World, fam: Family, id: NodeId, msg: String) {
    let p = w.path(id);
    w.violate(Oracle::Func(fam), format!("{}: {}", p, msg));
}

fn check_join(w: &mut World, id: NodeId) {
    let kids = w.nodes[id].children().to_vec();
    let readies: Vec<Option<(u32, Shape)>> = kids.iter().map(|&k| child_ready(w, id, k)).collect();
    let polls = w.nodes[id].polls.clone();
    for (pi, p) in polls.iter().enumerate() {
        let all_by_end = readies.iter().all(|r| matches!(r, Some((c, _)) if *c <= p.end));
        match &p.answer {
            Answer::Ready(s) => {
                if !all_by_end {
                    v(w, Family::Join, id, format!("resolved in poll {} although a child had not resolved", pi + 1));
                    continue;
                }
                let expect = Shape::L(readies.iter().map(|r| r.as_ref().unwrap().1.clone()).collect());
                if *s != expect {
                    v(w, Family::Join, id, format!("output {} but the children produced {} (position by position)", s.show(), expect.show()));
                }
                let last = readies.iter().map(|r| r.as_ref().unwrap().0).max();
                if let Some(l) = last {
                    if l < p.begin {
                        v(w, Family::Join, id, "resolved in a later poll than the one in which its last child resolved".into());
                    }
                } else if pi != 0 {
                    v(w, Family::Join, id, "join of zero futures did not resolve on the first poll".into());
                }
            }
            Answer::Pend(_) => {
                if all_by_end {
                    v(w, Family::Join, id, format!("returned Pending in poll {} although every child had resolved by the end of that poll", pi + 1));
                }
            }
            _ => {}
        }
    }
}

fn unwrap_res(s: &Shape) -> (bool, Shape) {
    match s {
        Shape::Ok(x) => (true, (**x).clone()),
        Shape::Err(x) => (false, (**x).clone()),
        other => (true, other.clone()),
    }
}

fn check_try_join(w: &mut World, id: NodeId) {
    let kids = w.nodes[id].children().to_vec();
    let readies: Vec<Option<(u32, bool, Shape)>> = kids
        .iter()
        .map(|&k| {
            child_ready(w, id, k).map(|(c, s)| {
                let (ok, x) = unwrap_res(&s);
                (c, ok, x)
            })
        })
        .collect();
    let first_err = readies
        .iter()
        .filter_map(|r| r.as_ref())
        .filter(|r| !r.1)
        .min_by_key(|r| r.0)
        .cloned();
    let polls = w.nodes[id].polls.clone();
    let fam = Family::TryJoin;
    for (pi, p) in polls.iter().enumerate() {
        let err_by_end = first_err.as_ref().filter(|e| e.0 <= p.end);
        let all_by_end = readies.iter().all(|r| matches!(r, Some((c, _, _)) if *c <= p.end));
        match &p.answer {
            Answer::Ready(s) => {
                let (ok, x) = unwrap_res(s);
                if ok {
                    if let Some(e) = err_by_end {
                        v(w, fam, id, format!("resolved Ok although a child had failed with {}", e.2.show()));
                        continue;
                    }
                    if !all_by_end {
                        v(w, fam, id, "resolved Ok although a child had not resolved".into());
                        continue;
                    }
                    let expect = Shape::L(readies.iter().map(|r| r.as_ref().unwrap().2.clone()).collect());
                    if x != expect {
                        v(w, fam, id, format!("Ok output {} but the children produced {}", x.show(), expect.show()));
                    }
                    let last = readies.iter().map(|r| r.as_ref().unwrap().0).max();
                    if let Some(l) = last {
                        if l < p.begin {
                            v(w, fam, id, "resolved Ok in a later poll than the one in which its last child resolved".into());
                        }
                    } else if pi != 0 {
                        v(w, fam, id, "try_join of zero futures did not resolve on the first poll".into());
                    }
                } else {
                    match &first_err {
                        None => v(w, fam, id, format!("resolved Err({}) but no child failed", x.show())),
                        Some(e) => {
                            if e.2 != x {
                                v(w, fam, id, format!("resolved Err({}) but the first child seen to fail returned {}", x.show(), e.2.show()));
                            } else if !within(p, e.0) {
                                v(w, fam, id, "the error was not returned in the poll in which the child was first seen to fail".into());
                            }
                        }
                    }
                }
            }
            Answer::Pend(_) => {
                if let Some(e) = err_by_end {
                    v(w, fam, id, format!("returned Pending in poll {} although a child had failed ({})", pi + 1, e.2.show()));
                } else if all_by_end {
                    v(w, fam, id, format!("returned Pending in poll {} although every child had resolved", pi + 1));
                }
            }
            _ => {}
        }
    }
    if let Some(e) = &first_err {
        if let Some(k) = polls_after(w, &kids, e.0) {
            let kp = w.path(k);
            v(w, fam, id, format!("{} was polled after a failure had been seen", kp));
        }
    }
}

fn check_race(w: &mut World, id: NodeId) {
    let kids = w.nodes[id].children().to_vec();
    let fam = Family::Race;
    let first = kids
        .iter()
        .filter_map(|&k| child_ready(w, id, k))
        .min_by_key(|r| r.0);
    let polls = w.nodes[id].polls.clone();
    for (pi, p) in polls.iter().enumerate() {
        match &p.answer {
            Answer::Ready(s) => match &first {
                None => v(w, fam, id, format!("resolved with {} but no child resolved", s.show())),
                Some(f) => {
                    if f.1 != *s {
                        v(w, fam, id, format!("resolved with {} but the first child seen to resolve produced {}", s.show(), f.1.show()));
                    } else if !within(p, f.0) {
                        v(w, fam, id, "did not resolve in the poll in which the first child resolved".into());
                    }
                }
            },
            Answer::Pend(_) => {
                if let Some(f) = &first {
                    if f.0 <= p.end {
                        v(w, fam, id, format!("returned Pending in poll {} although a child had resolved", pi + 1));
                    }
                }
            }
            _ => {}
        }
    }
    if let Some(f) = &first {
        if let Some(k) = polls_after(w, &kids, f.0) {
            let kp = w.path(k);
            v(w, fam, id, format!("{} was polled after the winner had resolved", kp));
        }
    }
    // the losers are dropped, unfinished, *together with* the race future
    if let Some(db) = w.nodes[id].drop_begin {
        for &k in &kids {
            let n = &w.nodes[k];
            if n.finished_at.is_none() && !n.panicked && matches!(n.dropped_at, Some(d) if d < db) {
                let kp = w.path(k);
                v(w, fam, id, format!("the losing child {} was dropped before the race future itself was dropped", kp));
                break;
            }
        }
    }
}

fn check_race_ok(w: &mut World, id: NodeId) {
    let kids = w.nodes[id].children().to_vec();
    let fam = Family::RaceOk;
    let readies: Vec<Option<(u32, bool, Shape)>> = kids
        .iter()
        .map(|&k| {
            child_ready(w, id, k).map(|(c, s)| {
                let (ok, x) = unwrap_res(&s);
                (c, ok, x)
            })
        })
        .collect();
    let first_ok = readies
        .iter()
        .filter_map(|r| r.as_ref())
        .filter(|r| r.1)
        .min_by_key(|r| r.0)
        .cloned();
    let polls = w.nodes[id].polls.clone();
    for (pi, p) in polls.iter().enumerate() {
        let ok_by_end = first_ok.as_ref().filter(|e| e.0 <= p.end);
        let all_failed_by_end = readies.iter().all(|r| matches!(r, Some((c, false, _)) if *c <= p.end));
        match &p.answer {
            Answer::Ready(s) => {
                let (ok, x) = unwrap_res(s);
                if ok {
                    match &first_ok {
                        None => v(w, fam, id, format!("resolved Ok({}) but no child succeeded", x.show())),
                        Some(f) => {
                            if f.2 != x {
                                v(w, fam, id, format!("resolved Ok({}) but the first child seen to succeed produced {}", x.show(), f.2.show()));
                            } else if !within(p, f.0) {
                                v(w, fam, id, "did not resolve in the poll in which the first child succeeded".into());
                            }
                        }
                    }
                } else {
                    if let Some(f) = ok_by_end {
                        v(w, fam, id, format!("resolved Err although a child had succeeded with {}", f.2.show()));
                        continue;
                    }
                    if !all_failed_by_end {
                        v(w, fam, id, "resolved Err although not every child had failed".into());
                        continue;
                    }
                    let expect = Shape::L(readies.iter().map(|r| r.as_ref().unwrap().2.clone()).collect());
                    if x != expect {
                        v(w, fam, id, format!("aggregate error {} but the children failed with {} (position by position)", x.show(), expect.show()));
                    }
                    let last = readies.iter().map(|r| r.as_ref().unwrap().0).max();
                    if let Some(l) = last {
                        if l < p.begin {
                            v(w, fam, id, "resolved Err in a later poll than the one in which the last child failed".into());
                        }
                    } else if pi != 0 {
                        v(w, fam, id, "race_ok of zero futures did not resolve on the first poll".into());
                    }
                }
            }
            Answer::Pend(_) => {
                if ok_by_end.is_some() {
                    v(w, fam, id, format!("returned Pending in poll {} although a child had succeeded", pi + 1));
                } else if all_failed_by_end {
                    v(w, fam, id, format!("returned Pending in poll {} although every child had failed", pi + 1));
                }
            }
            _ => {}
        }
    }
    if let Some(f) = &first_ok {
        if let Some(k) = polls_after(w, &kids, f.0) {
            let kp = w.path(k);
            v(w, fam, id, format!("{} was polled after a child had succeeded", kp));
        }
    }
    // a failed child is never polled again
    for (i, r) in readies.iter().enumerate() {
        if let Some((c, false, _)) = r {
            if w.nodes[kids[i]].polls.iter().any(|p| p.begin > *c) {
                let kp = w.path(kids[i]);
                v(w, fam, id, format!("{} was polled again after it had failed", kp));
            }
        }
    }
}

/// items of a merge-like member: a stream's items, or a future's single output
fn m_items(w: &World, k: NodeId) -> Vec<(u32, Shape)> {
    if own_flavor(w, k) == Flavor::S {
        w.nodes[k].items()
    } else {
        w.nodes[k].ready().into_iter().collect()
    }
}
fn m_ended(w: &World, k: NodeId) -> Option<u32> {
    if own_flavor(w, k) == Flavor::S {
        w.nodes[k].ended_at()
    } else {
        w.nodes[k].ready().map(|x| x.0)
    }
}

/// which child produced an item with this shape, and as its how-manieth
/// item. Shapes without tokens (e.g. the output of an empty inner join) can
/// repeat, so prefer the match that is next in line for its input.
fn locate(w: &World, kids: &[NodeId], s: &Shape, next: &[usize]) -> Option<(usize, usize)> {
    let mut fallback = None;
    for (ci, &k) in kids.iter().enumerate() {
        for (idx, (_, x)) in m_items(w, k).iter().enumerate() {
            if x == s {
                if next.get(ci).map(|n| *n == idx).unwrap_or(false) {
                    return Some((ci, idx));
                }
                if fallback.is_none() || next.get(ci).map(|n| idx > *n).unwrap_or(false) {
                    fallback = Some((ci, idx));
                }
            }
        }
    }
    fallback
}

fn check_merge_like(w: &mut World, id: NodeId, fam: Family) {
    let kids = w.nodes[id].children().to_vec();
    let polls = w.nodes[id].polls.clone();
    let mut next = vec![0usize; kids.len()];
    for (pi, p) in polls.iter().enumerate() {
        let item_in_poll = kids.iter().any(|&k| m_items(w, k).iter().any(|(c, _)| within(p, *c)));
        let live_after: Vec<NodeId> = kids
            .iter()
            .cloned()
            .filter(|&k| {
                let n = &w.nodes[k];
                n.created_at <= p.end
                    && !matches!(m_ended(w, k), Some(c) if c <= p.end)
                    && !matches!(n.removed_at, Some(c) if c <= p.end)
            })
            .collect();
        match &p.answer {
            Answer::Item(s) => match locate(w, &kids, s, &next) {
                None => v(w, fam, id, format!("yielded {} which no input produced", s.show())),
                Some((ci, idx)) => {
                    if idx < next[ci] {
                        v(w, fam, id, format!("yielded {} twice", s.show()));
                    } else if idx > next[ci] {
                        v(w, fam, id, format!("yielded {} out of order: it is item {} of input {} but item {} was not yielded before it", s.show(), idx, ci, next[ci]));
                        next[ci] = idx + 1;
                    } else {
                        next[ci] += 1;
                    }
                }
            },
            Answer::End => {
                if !live_after.is_empty() {
                    let kp = w.path(live_after[0]);
                    v(w, fam, id, format!("returned None while input {} had not ended", kp));
                }
                for (ci, &k) in kids.iter().enumerate() {
                    let produced = m_items(w, k).iter().filter(|(c, _)| *c <= p.end).count();
                    if produced > next[ci] && w.nodes[k].removed_at.is_none() {
                        v(w, fam, id, format!("returned None but {} item(s) of input {} were never yielded", produced - next[ci], ci));
                    }
                }
                if fam == Family::Merge {
                    let last_end = kids.iter().filter_map(|&k| m_ended(w, k)).max();
                    match last_end {
                        Some(l) if l < p.begin => v(w, fam, id, "returned None in a later poll than the one in which the last input ended".into()),
                        None if pi != 0 => v(w, fam, id, "merge of zero inputs did not return None on the first poll".into()),
                        _ => {}
                    }
                }
                if item_in_poll {
                    v(w, fam, id, format!("an input produced an item during poll {} but the merged stream returned None", pi + 1));
                }
            }
            Answer::Pend(_) => {
                if item_in_poll {
                    v(w, fam, id, format!("an input produced an item during poll {} but the merged stream returned Pending instead of yielding", pi + 1));
                }
                if live_after.is_empty() && fam == Family::Merge {
                    v(w, fam, id, format!("returned Pending in poll {} although every input had ended", pi + 1));
                }
            }
            _ => {}
        }
    }
}

fn check_zip(w: &mut World, id: NodeId) {
    let fam = Family::Zip;
    let kids = w.nodes[id].children().to_vec();
    let polls = w.nodes[id].polls.clone();
    let items: Vec<Vec<(u32, Shape)>> = kids.iter().map(|&k| w.nodes[k].items()).collect();
    let mut row = 0usize;
    let mut row_clocks: Vec<u32> = Vec::new();
    for (pi, p) in polls.iter().enumerate() {
        let ended = kids.iter().filter_map(|&k| w.nodes[k].ended_at()).filter(|c| *c <= p.end).min();
        match &p.answer {
            Answer::Item(s) => {
                let expect: Option<Vec<Shape>> = items.iter().map(|it| it.get(row).map(|x| x.1.clone())).collect();
                match expect {
                    None => v(w, fam, id, format!("yielded row {} = {} before every input had produced its item {}", row, s.show(), row)),
                    Some(e) => {
                        let e = Shape::L(e);
                        if *s != e {
                            v(w, fam, id, format!("row {} is {} but the inputs' items number {} are {}", row, s.show(), row, e.show()));
                        }
                    }
                }
                row += 1;
                row_clocks.push(p.end);
            }
            Answer::End => match ended {
                None => v(w, fam, id, "returned None although no input had ended".into()),
                Some(c) => {
                    if !within(p, c) {
                        v(w, fam, id, "returned None in a later poll than the one in which an input was found to have ended".into());
                    }
                }
            },
            Answer::Pend(_) => {
                if ended.is_some() {
                    v(w, fam, id, format!("returned Pending in poll {} although an input had ended", pi + 1));
                }
            }
            _ => {}
        }
    }
    // at most one further item from any input
    for (ci, it) in items.iter().enumerate() {
        for (k, (t, _)) in it.iter().enumerate() {
            let rows_before = row_clocks.iter().filter(|c| **c < *t).count();
            if rows_before < k {
                v(w, fam, id, format!("input {} was asked for its item {} when only {} rows had been yielded (more than one item ahead)", ci, k, rows_before));
                break;
            }
        }
    }
    if let Some(c) = kids.iter().filter_map(|&k| w.nodes[k].ended_at()).min() {
        if let Some(k) = polls_after(w, &kids, c) {
            let kp = w.path(k);
            v(w, fam, id, format!("{} was polled after an input had ended", kp));
        }
    }
}

fn check_chain(w: &mut World, id: NodeId) {
    let fam = Family::Chain;
    let kids = w.nodes[id].children().to_vec();
    let polls = w.nodes[id].polls.clone();
    let concat: Vec<Shape> = kids.iter().flat_map(|&k| w.nodes[k].items().into_iter().map(|x| x.1)).collect();
    let mut n = 0usize;
    for (pi, p) in polls.iter().enumerate() {
        let all_ended = kids.iter().all(|&k| matches!(w.nodes[k].ended_at(), Some(c) if c <= p.end));
        match &p.answer {
            Answer::Item(s) => {
                match concat.get(n) {
                    Some(e) if e == s => {}
                    Some(e) => v(w, fam, id, format!("yielded {} where the concatenation of the inputs has {}", s.show(), e.show())),
                    None => v(w, fam, id, format!("yielded {} which no input produced", s.show())),
                }
                n += 1;
            }
            Answer::End => {
                if !all_ended {
                    v(w, fam, id, "returned None although an input had not ended".into());
                } else {
                    if n != concat.len() {
                        v(w, fam, id, format!("returned None after {} items but the inputs produced {}", n, concat.len()));
                    }
                    let last = kids.iter().filter_map(|&k| w.nodes[k].ended_at()).max();
                    match last {
                        Some(l) if l < p.begin => v(w, fam, id, "returned None in a later poll than the one in which the last input ended".into()),
                        None if pi != 0 => v(w, fam, id, "chain of zero inputs did not return None on the first poll".into()),
                        _ => {}
                    }
                }
            }
            Answer::Pend(_) => {
                if all_ended {
                    v(w, fam, id, format!("returned Pending in poll {} although every input had ended", pi + 1));
                }
            }
            _ => {}
        }
    }
    // strictly sequential evaluation
    for j in 1..kids.len() {
        if let Some(fp) = first_poll_begin(w, kids[j]) {
            match w.nodes[kids[j - 1]].ended_at() {
                Some(e) if e < fp => {}
                _ => {
                    let kp = w.path(kids[j]);
                    v(w, fam, id, format!("{} was polled before the previous input had returned None", kp));
                }
            }
        }
    }
}

fn check_wait(w: &mut World, id: NodeId, fam: Family) {
    let kids = w.nodes[id].children().to_vec();
    let (inner, deadline) = (kids[0], kids[1]);
    let d_ready = w.nodes[deadline].ready().map(|x| x.0);
    let polls = w.nodes[id].polls.clone();
    // inner untouched before the deadline resolved
    if let Some(fp) = first_poll_begin(w, inner) {
        match d_ready {
            None => v(w, fam, id, "the inner future/stream was polled although the deadline had not resolved".into()),
            Some(d) if fp < d => v(w, fam, id, "the inner future/stream was polled before the deadline resolved".into()),
            _ => {}
        }
    }
    if let Some(d) = d_ready {
        if w.nodes[deadline].polls.iter().any(|p| p.begin > d) {
            v(w, fam, id, "the deadline was polled again after it had resolved".into());
        }
    }
    for (pi, p) in polls.iter().enumerate() {
        if matches!(p.answer, Answer::Panic) {
            continue;
        }
        match d_ready {
            Some(d) if d <= p.end => {
                // from the poll in which the deadline resolved on: behave like inner
                let ip: Vec<&PollRec> = w.nodes[inner].polls.iter().filter(|ip| within(p, ip.begin)).collect();
                if ip.len() != 1 {
                    v(w, fam, id, format!("poll {} (deadline resolved) polled the inner {} times instead of once", pi + 1, ip.len()));
                    continue;
                }
                let ia = ip[0].answer.clone();
                let same = match (&ia, &p.answer) {
                    (Answer::Pend(_), Answer::Pend(_)) => true,
                    (a, b) => a == b,
                };
                if !same {
                    v(w, fam, id, format!("poll {} answered {} but the inner answered {}", pi + 1, p.answer.show(), ia.show()));
                }
            }
            _ => {
                if !p.answer.is_pend() {
                    v(w, fam, id, format!("poll {} answered {} before the deadline resolved", pi + 1, p.answer.show()));
                }
            }
        }
    }
}

/// C20, first sentence: whenever a concurrent combinator returns Pending,
/// every child it owns at that moment has been polled at least once.
fn check_conc(w: &mut World, id: NodeId, fam: Family) {
    if !matches!(
        fam,
        Family::Join | Family::TryJoin | Family::Race | Family::RaceOk | Family::Merge | Family::Zip | Family::FutGroup | Family::StrGroup
    ) {
        return;
    }
    let kids = w.nodes[id].children().to_vec();
    let polls = w.nodes[id].polls.clone();
    for (pi, p) in polls.iter().enumerate() {
        if !p.answer.is_pend() {
            continue;
        }
        for &k in &kids {
            let n = &w.nodes[k];
            let owned = n.created_at <= p.begin
                && !matches!(n.removed_at, Some(c) if c <= p.end)
                && !matches!(n.finished_at, Some(c) if c <= p.end)
                && !n.panicked;
            if owned && !n.polls.iter().any(|cp| cp.begin <= p.end) {
                let kp = w.path(k);
                let me = w.path(id);
                w.violate_f(
                    Oracle::Conc,
                    Some(fam),
                    format!("{} returned Pending (its poll {}) although its child {} had never been polled", me, pi + 1, kp),
                );
                return;
            }
        }
    }
}

fn check_fair(w: &mut World, id: NodeId) {
    let kids = w.nodes[id].children().to_vec();
    let n = kids.len();
    let always: Vec<usize> = kids
        .iter()
        .enumerate()
        .filter(|(_, &k)| matches!(&w.nodes[k].kind, NodeKind::Leaf { always: true, .. }))
        .map(|(i, _)| i)
        .collect();
    if always.is_empty() || n == 0 {
        return;
    }
    // provenance of every yield: the input whose subtree produced the token
    // (linear in the number of yields, so that runs of 10^5 polls and merges
    // of 10^5 inputs stay cheap)
    let kid_index: std::collections::HashMap<NodeId, usize> = kids.iter().enumerate().map(|(i, &k)| (k, i)).collect();
    let input_of = |w: &World, s: &Shape| -> Option<usize> {
        let mut toks = Vec::new();
        s.toks(&mut toks);
        let t = *toks.first()?;
        let mut node = w.toks.get(crate::val::index_of(t))?.producer?;
        loop {
            if let Some(i) = kid_index.get(&node) {
                return Some(*i);
            }
            node = w.nodes[node].parent?;
        }
    };
    let prov: Vec<Option<usize>> = w.nodes[id]
        .polls
        .iter()
        .filter_map(|p| match &p.answer {
            Answer::Item(s) => Some(input_of(w, s)),
            _ => None,
        })
        .collect();
    if prov.len() < n {
        return;
    }
    // input d is missing from some window of n consecutive yields iff two
    // consecutive occurrences of d (or the ends of the run) are >= n yields apart
    let mut last: std::collections::HashMap<usize, isize> = always.iter().map(|d| (*d, -1isize)).collect();
    let mut bad: Option<(usize, usize)> = None;
    for (i, p) in prov.iter().enumerate() {
        if let Some(d) = p {
            if let Some(l) = last.get_mut(d) {
                if (i as isize - *l - 1) as usize >= n && bad.is_none() {
                    bad = Some((*d, (*l + 1) as usize));
                }
                *l = i as isize;
            }
        }
    }
    if bad.is_none() {
        for d in &always {
            let l = last[d];
            if (prov.len() as isize - l - 1) as usize >= n {
                bad = Some((*d, (l + 1) as usize));
                break;
            }
        }
    }
    if let Some((d, start)) = bad {
        let me = w.path(id);
        w.violate_f(
            Oracle::Fair,
            Some(Family::Merge),
            format!("{}: input {} has an item on every poll, yet yields {}..{} (a window of N={}) contain none of its items", me, d, start, start + n - 1, n),
        );
    }
}

/// Long fairness runs (tens of thousands of polls, tens of thousands of
/// inputs): only the oracles that are linear in the length of the run.
pub fn check_trace_fairness_only(w: &mut World) {
    let ids: Vec<NodeId> = w.nodes.iter().filter(|n| n.family() == Some(Family::Merge)).map(|n| n.id).collect();
    for id in ids {
        check_fair(w, id);
        check_merge_counts(w, id);
    }
    check_drops(w);
}

/// Linear summary of the merge oracle for huge cases: when the merged stream
/// returns None every input has ended and exactly as many items were yielded as
/// the inputs produced.
fn check_merge_counts(w: &mut World, id: NodeId) {
    let ended_at = w.nodes[id].polls.iter().find(|p| matches!(p.answer, Answer::End)).map(|p| p.end);
    let Some(end) = ended_at else { return };
    let kids = w.nodes[id].children().to_vec();
    let yielded = w.nodes[id].polls.iter().filter(|p| matches!(p.answer, Answer::Item(_))).count();
    let mut produced = 0usize;
    let mut not_ended = None;
    for &k in &kids {
        let n = &w.nodes[k];
        produced += n.polls.iter().filter(|p| matches!(p.answer, Answer::Item(_)) && p.end <= end).count();
        if !matches!(n.ended_at(), Some(c) if c <= end) && not_ended.is_none() {
            not_ended = Some(k);
        }
    }
    if let Some(k) = not_ended {
        let kp = w.path(k);
        v(w, Family::Merge, id, format!("returned None while input {} had not ended", kp));
    }
    if produced != yielded {
        v(w, Family::Merge, id, format!("returned None after yielding {} items but the inputs produced {}", yielded, produced));
    }
}

/// All end-of-case trace oracles, for every combinator node in the tree.
pub fn check_trace(w: &mut World) {
    let ids: Vec<(NodeId, Family)> = w.nodes.iter().filter_map(|n| n.family().map(|f| (n.id, f))).collect();
    for (id, fam) in ids {
        match fam {
            Family::Join => check_join(w, id),
            Family::TryJoin => check_try_join(w, id),
            Family::Race => check_race(w, id),
            Family::RaceOk => check_race_ok(w, id),
            Family::Merge => {
                check_merge_like(w, id, Family::Merge);
                check_fair(w, id);
            }
            Family::Zip => check_zip(w, id),
            Family::Chain => check_chain(w, id),
            Family::WaitF | Family::WaitS => check_wait(w, id, fam),
            Family::FutGroup | Family::StrGroup => {
                // pre-populated groups behave like a merge of their members;
                // operation histories are judged by the model in groups.rs
                if !w.group_model {
                    check_merge_like(w, id, fam)
                }
            }
            Family::Co => {}
        }
        check_conc(w, id, fam);
    }
    check_drops(w);
}

/// D at the end of the case (everything has been dropped by the harness).
pub fn check_drops(w: &mut World) {
    let n = w.nodes.len();
    for i in 0..n {
        let node = &w.nodes[i];
        if node.drops == 0 && !node.untracked_drop {
            let m = format!("{} was never dropped (leaked)", w.path(i));
            let f = w.owner_family(i);
            w.violate_f(Oracle::D, f, m);
        }
    }
    for t in 0..w.toks.len() {
        if w.toks[t].drops == 0 && !w.toks[t].untracked {
            let p = w.toks[t].producer.map(|n| w.path(n)).unwrap_or_else(|| "the harness".into());
            let f = w.tok_family(crate::val::handle_of(t));
            w.violate_f(Oracle::DV, f, format!("value t{} produced by {} was never dropped (leaked)", t, p));
        }
    }
    // everything that was returned must have been produced by a child; the
    // combinator to blame is the innermost one that handed the value out
    if let Some(top) = w.top {
        let mut bad: Option<(usize, NodeId, u32)> = None; // (depth, node, handle)
        for n in &w.nodes {
            if n.is_leaf() {
                continue;
            }
            let mut handle = None;
            for p in &n.polls {
                if let Answer::Ready(s) | Answer::Item(s) = &p.answer {
                    if let Some(t) = s.has_unknown() {
                        handle = Some(t);
                    }
                }
            }
            if let Some(t) = handle {
                let mut depth = 0;
                let mut cur = n.parent;
                while let Some(p) = cur {
                    depth += 1;
                    cur = w.nodes[p].parent;
                }
                if bad.map(|b| depth > b.0).unwrap_or(true) {
                    bad = Some((depth, n.id, t));
                }
            }
        }
        if let Some((_, id, t)) = bad {
            let f = w.nodes[id].family();
            let who = w.path(id);
            let _ = top;
            w.violate_f(Oracle::DV, f, format!("{} returned a value (handle {:#x}) that no child produced", who, t));
        }
    }
}

fn stalled(w: &World, id: NodeId) -> bool {
    let n = &w.nodes[id];
    if n.finished_at.is_some() {
        return false;
    }
    match &n.kind {
        NodeKind::Leaf { .. } => n.is_never(),
        NodeKind::Comb { .. } => !n.polls.is_empty() && unexplained(w, id).is_none(),
    }
}

fn describe(w: &World, id: NodeId) -> String {
    let n = &w.nodes[id];
    format!(
        "{} (polled {} times, last answer {})",
        w.path(id),
        n.polls.len(),
        n.last_answer().map(|a| a.show()).unwrap_or_else(|| "-".into())
    )
}

/// Why is this unfinished combinator pending at quiescence? `None` = it is
/// legitimately waiting for a never-completing child.
pub fn unexplained(w: &World, id: NodeId) -> Option<String> {
    let n = &w.nodes[id];
    let fam = n.family().unwrap();
    let kids: Vec<NodeId> = n.children().iter().cloned().filter(|&k| w.nodes[k].removed_at.is_none()).collect();
    let unfinished: Vec<NodeId> = kids.iter().cloned().filter(|&k| w.nodes[k].finished_at.is_none()).collect();
    let not_stalled = |set: &[NodeId]| set.iter().cloned().find(|&k| !stalled(w, k));
    match fam {
        Family::Join | Family::TryJoin => {
            if fam == Family::TryJoin {
                if let Some(k) = kids.iter().find(|&&k| matches!(child_ready(w, id, k), Some((_, Shape::Err(_))))) {
                    return Some(format!("{} failed but the try_join is still pending", describe(w, *k)));
                }
            }
            if unfinished.is_empty() {
                return Some("every child has resolved".into());
            }
            not_stalled(&unfinished).map(|k| format!("{} can still make progress or was left behind", describe(w, k)))
        }
        Family::Race => {
            if let Some(k) = kids.iter().find(|&&k| w.nodes[k].finished_at.is_some()) {
                return Some(format!("{} resolved but the race is still pending", describe(w, *k)));
            }
            not_stalled(&unfinished).map(|k| format!("{} can still make progress or was left behind", describe(w, k)))
        }
        Family::RaceOk => {
            if let Some(k) = kids.iter().find(|&&k| matches!(child_ready(w, id, k), Some((_, Shape::Ok(_))))) {
                return Some(format!("{} succeeded but the race_ok is still pending", describe(w, *k)));
            }
            if unfinished.is_empty() {
                return Some("every child has failed".into());
            }
            not_stalled(&unfinished).map(|k| format!("{} can still make progress or was left behind", describe(w, k)))
        }
        Family::Merge | Family::FutGroup | Family::StrGroup => {
            if unfinished.is_empty() {
                return Some("no live input remains".into());
            }
            if let Some(k) = not_stalled(&unfinished) {
                return Some(format!("{} can still make progress or was left behind", describe(w, k)));
            }
            // nothing may be stuck inside while parked
            let yielded: usize = n.polls.iter().filter(|p| matches!(p.answer, Answer::Item(_))).count();
            let produced: usize = n
                .children()
                .iter()
                .filter(|&&k| w.nodes[k].removed_at.is_none())
                .map(|&k| {
                    let c = &w.nodes[k];
                    if fam == Family::FutGroup {
                        c.ready().is_some() as usize
                    } else {
                        c.items().len()
                    }
                })
                .sum();
            let check_buffer = fam == Family::Merge || n.parent.is_some();
            if check_buffer && produced > yielded {
                return Some(format!("{} items were produced by the inputs but only {} yielded", produced, yielded));
            }
            None
        }
        Family::Zip => {
            if let Some(k) = kids.iter().find(|&&k| w.nodes[k].finished_at.is_some()) {
                return Some(format!("{} ended but the zip is still pending", describe(w, *k)));
            }
            let rows = n.polls.iter().filter(|p| matches!(p.answer, Answer::Item(_))).count();
            let mut any_stalled = false;
            for &k in &kids {
                let have = w.nodes[k].items().len();
                if have == rows + 1 {
                    continue; // buffered, deliberately held back
                }
                if stalled(w, k) {
                    any_stalled = true;
                } else {
                    return Some(format!("{} can still make progress or was left behind", describe(w, k)));
                }
            }
            if !any_stalled {
                return Some("a complete row is buffered".into());
            }
            None
        }
        Family::Chain => match unfinished.first() {
            None => Some("every input has ended".into()),
            Some(&k) => {
                if stalled(w, k) {
                    None
                } else {
                    Some(format!("{} can still make progress or was left behind", describe(w, k)))
                }
            }
        },
        Family::WaitF | Family::WaitS => {
            let all = n.children();
            let (inner, deadline) = (all[0], all[1]);
            let cur = if w.nodes[deadline].finished_at.is_none() { deadline } else { inner };
            if stalled(w, cur) {
                None
            } else {
                Some(format!("{} can still make progress or was left behind", describe(w, cur)))
            }
        }
        Family::Co => None,
    }
}

/// Which combinator is to blame for an unexplained Pending at quiescence:
/// descend into a child combinator that is itself pending without an
/// explanation and that did *not* signal its parent (the waker it was polled
/// with was not invoked since); otherwise the blame stays here.
pub fn progress_culprit(w: &World, id: NodeId) -> NodeId {
    for &k in w.nodes[id].children() {
        let n = &w.nodes[k];
        if n.is_leaf() || n.finished_at.is_some() || n.removed_at.is_some() || n.dropped_at.is_some() {
            continue;
        }
        if !matches!(n.last_answer(), Some(a) if a.is_pend()) {
            continue;
        }
        let signalled = n.wakers.last().and_then(|wk| wk.ext.as_ref()).map(|e| e.load(std::sync::atomic::Ordering::SeqCst) > 0).unwrap_or(false);
        if !signalled && unexplained(w, k).is_some() {
            return progress_culprit(w, k);
        }
    }
    id
}

/// P: at quiescence a pending combinator must be explained by a
/// never-completing child.
pub fn check_progress(top: NodeId) {
    world::with(|w| {
        if !matches!(w.nodes[top].last_answer(), Some(a) if a.is_pend()) {
            return;
        }
        if let Some(why) = unexplained(w, top) {
            let p = w.path(top);
            let c = progress_culprit(w, top);
            let f = w.nodes[c].family();
            w.violate_f(
                Oracle::P,
                f,
                format!("{} is Pending with no wake-up outstanding although it could make progress: {}", p, why),
            );
        }
    });
}
