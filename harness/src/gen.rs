//! bytes -> structured case. `choice(n)` is the monotone map byte*n>>8 and
//! exhausted input decodes as zeros = the simplest choice, so that byte-level
//! shrinking simplifies the decoded case. Construction only, no rejection.

use crate::spec::*;
use crate::world::{Container, Family, Flavor, Step};

pub struct Cur<'a> {
    b: &'a [u8],
    i: usize,
}

impl<'a> Cur<'a> {
    pub fn new(b: &'a [u8]) -> Self {
        Cur { b, i: 0 }
    }
    pub fn byte(&mut self) -> u8 {
        let v = self.b.get(self.i).cloned().unwrap_or(0);
        self.i += 1;
        v
    }
    pub fn choice(&mut self, n: usize) -> usize {
        if n <= 1 {
            return 0;
        }
        if n <= 256 {
            (self.byte() as usize * n) >> 8
        } else {
            let v = ((self.byte() as usize) << 8) | self.byte() as usize;
            (v * n) >> 16
        }
    }
    /// true with probability p/256 (false on exhausted input)
    pub fn coin(&mut self, p: u32) -> bool {
        if p == 0 {
            return false;
        }
        (self.byte() as u32) >= 256 - p.min(256)
    }
    pub fn weighted<T: Copy>(&mut self, items: &[(T, u32)]) -> T {
        let total: u32 = items.iter().map(|x| x.1).sum();
        let mut r = (self.byte() as u32 * total) >> 8;
        for (t, w) in items {
            if r < *w {
                return *t;
            }
            r -= *w;
        }
        items.last().unwrap().0
    }
    pub fn used(&self) -> usize {
        self.i
    }
}

#[derive(Clone)]
pub struct Profile {
    pub families: Vec<(Family, u32)>,
    pub p_nest: u32,
    pub p_never: u32,
    pub p_panic: u32,
    pub p_drop: u32,
    pub p_err: u32,
    pub p_nodrain: u32,
    pub p_stale: u32,
    pub p_thread: u32,
    pub p_spurious_heavy: u32,
    pub big_vec: bool,
    pub max_script: usize,
    pub max_sched: usize,
    pub fair: bool,
    pub allow_zero: bool,
    pub sib_wakes: bool,
    /// probability of polling the combinator again after its final result
    pub p_post: u32,
    /// probability of a type-dimension variant (children or values without
    /// drop glue) for a flat top-level combinator
    pub p_variant: u32,
    /// nesting: a child at a depth below this may itself be a combinator
    /// (1 = one level of nesting, 2 = a combinator inside a combinator inside
    /// the top-level one)
    pub max_depth: usize,
    /// probability of a storm case (wakers invoked concurrently from helper
    /// threads instead of by the scripted schedule)
    pub p_storm: u32,
    /// probability (per leaf) of a script that starts with 240..570 Pending answers
    pub p_long: u32,
    /// probability (per flat combinator) that *all* children are of that kind
    pub p_marathon: u32,
}

pub const ALL_FAMILIES: &[(Family, u32)] = &[
    (Family::Join, 10),
    (Family::TryJoin, 10),
    (Family::Race, 7),
    (Family::RaceOk, 8),
    (Family::Merge, 12),
    (Family::Zip, 10),
    (Family::Chain, 6),
    (Family::WaitF, 3),
    (Family::WaitS, 3),
    (Family::FutGroup, 4),
    (Family::StrGroup, 4),
];

impl Profile {
    pub fn base() -> Profile {
        Profile {
            families: ALL_FAMILIES.to_vec(),
            p_nest: 40,
            p_never: 10,
            p_panic: 0,
            p_drop: 0,
            p_err: 60,
            p_nodrain: 0,
            p_stale: 70,
            p_thread: 4,
            p_spurious_heavy: 0,
            big_vec: false,
            max_script: 8,
            max_sched: 40,
            fair: false,
            allow_zero: true,
            sib_wakes: true,
            p_post: 0,
            p_variant: 26,
            max_depth: 2,
            p_storm: 0,
            p_long: 1,
            p_marathon: 3,
        }
    }
    pub fn only(mut self, fams: &[Family]) -> Profile {
        self.families = fams.iter().map(|f| (*f, 10)).collect();
        self
    }
}

fn containers_for(f: Family) -> Vec<(Container, u32)> {
    let mut v = vec![(Container::Tuple, 10), (Container::Array, 10)];
    if cfg!(feature = "has-alloc") {
        v.push((Container::Vec, 12));
    }
    if matches!(f, Family::Join | Family::Race | Family::Merge | Family::Zip | Family::Chain) {
        v.push((Container::Ext, 3));
    }
    v
}

fn min_len(f: Family, c: Container) -> usize {
    match (f, c) {
        (Family::Join | Family::TryJoin | Family::Merge, _) => 0,
        (Family::RaceOk | Family::Chain, Container::Array | Container::Vec) => 0,
        _ => 1,
    }
}

const TUPLE_LENS: &[usize] = &[2, 1, 3, 2, 3, 4, 5, 6, 7, 8, 9, 10, 11, 12, 0, 4];
const ARRAY_CHOICES: &[usize] = &[2, 1, 3, 2, 3, 4, 5, 6, 7, 8, 12, 16, 0, 4];
const VEC_LENS: &[usize] = &[2, 1, 3, 2, 3, 4, 5, 6, 7, 8, 9, 10, 11, 12, 0, 4];
/// lengths between the small ones and the boundaries (a scan with a fixed prime
/// stride, a table of 32 slots, ... can go wrong at any of them; seeded change P04-a
/// needs a multiple of 13). Chosen by the low nibble of the byte that picks from
/// VEC_LENS, so that every other input decodes as before.
const MID_LENS: &[usize] = &[13, 14, 15, 17, 18, 19, 21, 25, 26, 27, 31, 32, 33, 39, 47, 52];
fn vec_len(c: &mut Cur) -> usize {
    let b = c.byte() as usize;
    if b & 15 == 15 {
        MID_LENS[b >> 4]
    } else {
        VEC_LENS[b >> 4]
    }
}
const BIG_LENS: &[usize] = &[22, 23, 24, 63, 64, 65, 66, 100, 128, 129, 200, 255, 256, 257, 300, 1025, 1100];

pub fn gen_script(c: &mut Cur, p: &Profile, flavor: Flavor, nleaves_hint: usize) -> LeafSpec {
    let len = c.choice(p.max_script + 1);
    let mut script = Vec::with_capacity(len + 1);
    for _ in 0..len {
        let s = match flavor {
            Flavor::S => c.weighted(&[(0u8, 30), (3, 34), (1, 12), (2, if p.sib_wakes { 8 } else { 0 }), (4, 4), (5, 4)]),
            _ => c.weighted(&[(0u8, 60), (1, 22), (2, if p.sib_wakes { 14 } else { 0 }), (5, 3)]),
        };
        let step = match s {
            0 => Step::Later,
            1 => Step::SelfWake,
            2 => Step::WakeSib(c.byte() % (nleaves_hint.max(1) as u8).max(1)),
            3 => Step::Yield(true),
            5 => Step::WakeYield,
            _ => Step::End,
        };
        script.push(step);
        if step == Step::End || (step == Step::WakeYield && flavor != Flavor::S) {
            break;
        }
    }
    if flavor == Flavor::R && c.coin(p.p_err) {
        script.push(Step::Yield(false));
    }
    // now and then a child that needs hundreds of wake-ups before it goes on
    // (state that only goes wrong after ~2^8 polls of one combinator)
    if c.coin(p.p_long) {
        let k = 240 + c.choice(330);
        let mut long = vec![Step::Later; k];
        long.extend(script.drain(..));
        script = long;
    }
    if c.coin(p.p_never) {
        // becomes a never-completing child from some point on
        let at = c.choice(script.len() + 1);
        script.truncate(at);
        script.push(Step::Never);
    }
    // a stream that knows how many items it has left says so (adapters may
    // consult size_hint; it must never change what they do)
    let hint = if flavor == Flavor::S { c.weighted(&[(0u8, 160), (1, 50), (2, 32), (3, 14)]) } else { 0 };
    // some children notify from their destructor (a channel endpoint that wakes
    // its peer when dropped): "any waker ever handed out" may be invoked then
    let dropwake = c.coin(20);
    LeafSpec { script, always: false, hint, dropwake }
}

fn inner_families(want: Flavor) -> Vec<(Family, u32)> {
    match want {
        Flavor::F => vec![(Family::Join, 10), (Family::Race, 8), (Family::TryJoin, 4), (Family::RaceOk, 4), (Family::WaitF, 3)],
        Flavor::R => vec![(Family::TryJoin, 10), (Family::RaceOk, 8), (Family::Join, 4), (Family::Race, 4)],
        Flavor::S => {
            let mut v = vec![(Family::Merge, 10), (Family::Zip, 10), (Family::Chain, 6), (Family::WaitS, 3)];
            if cfg!(feature = "has-alloc") {
                v.push((Family::FutGroup, 4));
                v.push((Family::StrGroup, 4));
            }
            v
        }
    }
}

fn gen_children(c: &mut Cur, p: &Profile, fam: Family, n: usize, depth: usize, nests_left: &mut usize) -> Vec<ChildSpec> {
    let flavor = fam.child_flavor();
    // hundreds of children times hundreds of polls each is more than the
    // trace oracles can digest: long scripts only in small combinators
    let small;
    let p = if n > 24 {
        let mut q = p.clone();
        q.p_long = 0;
        small = q;
        &small
    } else {
        p
    };
    // big containers: independent random scripts make "all of them fail" or
    // "the first 256 stay pending" astronomically unlikely, so most big cases
    // use one script for all children plus a few exceptions
    if n > 24 && c.coin(170) {
        let mut t = gen_script(c, p, flavor, 24);
        if flavor == Flavor::R {
            // make the uniform outcome a coin flip rather than p_err
            let fail = c.coin(128);
            t.script.retain(|s| !matches!(s, Step::Yield(false)));
            if fail {
                t.script.push(Step::Yield(false));
            }
        }
        let mut v: Vec<ChildSpec> = (0..n).map(|_| ChildSpec::Leaf(t.clone())).collect();
        for _ in 0..c.choice(4) {
            let at = c.choice(n);
            v[at] = ChildSpec::Leaf(gen_script(c, p, flavor, 24));
        }
        return v;
    }
    if n >= 1 && n <= 12 && depth == 0 && c.coin(p.p_marathon) {
        // every child pends hundreds of times: the combinator itself is polled
        // hundreds of times before anything resolves
        let mut q = p.clone();
        q.p_long = 256;
        q.max_script = 3;
        return (0..n).map(|_| ChildSpec::Leaf(gen_script(c, &q, flavor, n))).collect();
    }
    (0..n)
        .map(|_| {
            if depth < p.max_depth && *nests_left > 0 && n <= 12 && c.coin(if depth == 0 { p.p_nest } else { p.p_nest * 2 / 3 }) {
                *nests_left -= 1;
                let f = c.weighted(&inner_families(flavor));
                ChildSpec::Inner(gen_comb(c, p, f, depth + 1, nests_left))
            } else {
                ChildSpec::Leaf(gen_script(c, p, flavor, n.min(24)))
            }
        })
        .collect()
}

pub fn gen_comb(c: &mut Cur, p: &Profile, fam: Family, depth: usize, nests_left: &mut usize) -> CombSpec {
    match fam {
        Family::WaitF | Family::WaitS => {
            let inner_fl = if fam == Family::WaitF { Flavor::F } else { Flavor::S };
            let inner = if depth < p.max_depth && *nests_left > 0 && c.coin(p.p_nest) {
                *nests_left -= 1;
                let f = c.weighted(&inner_families(inner_fl));
                // keep Result-flavoured futures out of wait_until (plain futures only)
                let f = if inner_fl == Flavor::F && matches!(f, Family::TryJoin | Family::RaceOk | Family::WaitF) { Family::Join } else { f };
                ChildSpec::Inner(gen_comb(c, p, f, depth + 1, nests_left))
            } else {
                ChildSpec::Leaf(gen_script(c, p, inner_fl, 2))
            };
            let deadline = ChildSpec::Leaf(gen_script(c, p, Flavor::F, 2));
            CombSpec {
                family: fam,
                container: Container::Ext,
                children: vec![inner, deadline],
                variant: 0,
            }
        }
        Family::FutGroup | Family::StrGroup => {
            let n = if depth == 0 { vec_len(c) } else { 1 + c.choice(3) };
            let container = if c.coin(100) { Container::KeyedGroup } else { Container::Group };
            let children = gen_children(c, p, fam, n, depth, nests_left);
            CombSpec { family: fam, container, children, variant: 0 }
        }
        _ => {
            let container = c.weighted(&containers_for(fam));
            let lo = if p.allow_zero { min_len(fam, container) } else { 1 };
            let mut n = match container {
                Container::Ext => 2,
                Container::Tuple => TUPLE_LENS[c.choice(TUPLE_LENS.len())],
                Container::Array => {
                    // now and then an array beyond a one-byte counter
                    if depth == 0 && c.coin(if p.big_vec { 10 } else { 3 }) {
                        // (a quarter of these: 13, the one odd prime length instantiated)
                        let b = c.byte();
                        if b & 0x60 == 0x60 {
                            13
                        } else {
                            [256usize, 300][(b >> 7) as usize]
                        }
                    } else {
                        ARRAY_CHOICES[c.choice(ARRAY_CHOICES.len())]
                    }
                }
                _ => {
                    // boundary lengths of the internal tables (inline capacity 23,
                    // bitset blocks of 64): often in the thorough tier, now and
                    // then in the quick tier too
                    if depth == 0 && c.coin(if p.big_vec { 40 } else { 9 }) {
                        BIG_LENS[c.choice(BIG_LENS.len())]
                    } else {
                        vec_len(c)
                    }
                }
            };
            if depth > 0 {
                n = n.min(if depth == 1 { 4 } else { 3 });
                if container == Container::Array && !crate::construct::ARRAY_LENS.contains(&n) {
                    n = 4;
                }
            }
            if n < lo {
                n = lo.max(1);
            }
            if container == Container::Tuple && n == 0 && !matches!(fam, Family::Join | Family::TryJoin | Family::Merge) {
                n = 1;
            }
            let children = gen_children(c, p, fam, n, depth, nests_left);
            CombSpec { family: fam, container, children, variant: 0 }
        }
    }
}

fn count_leaves_mut<'a>(s: &'a mut CombSpec, out: &mut Vec<&'a mut LeafSpec>) {
    for ch in s.children.iter_mut() {
        match ch {
            ChildSpec::Leaf(l) => out.push(l),
            ChildSpec::Inner(i) => count_leaves_mut(i, out),
        }
    }
}

pub fn gen_schedule(c: &mut Cur, p: &Profile) -> Vec<Action> {
    let len = c.choice(p.max_sched + 1);
    let spurious_heavy = c.coin(p.p_spurious_heavy);
    let mut out = Vec::with_capacity(len);
    for _ in 0..len {
        let k = if spurious_heavy {
            c.weighted(&[(0u8, 70), (1, 30), (2, p.p_drop / 4), (3, 3)])
        } else {
            c.weighted(&[(0u8, 45), (1, 45), (2, p.p_drop), (3, 5)])
        };
        out.push(match k {
            3 => Action::FireAll,
            0 => Action::Poll { reuse: c.coin(70) },
            1 => Action::Fire {
                leaf: c.byte(),
                which: if c.coin(p.p_stale) { 1 + c.choice(3) as u8 } else { 0 },
                twice: c.coin(40),
                thread: c.coin(p.p_thread),
            },
            _ => Action::Drop,
        });
    }
    out
}

pub fn gen_case(bytes: &[u8], p: &Profile) -> Case {
    let mut c = Cur::new(bytes);
    let fams: Vec<(Family, u32)> = p
        .families
        .iter()
        .cloned()
        .filter(|(f, _)| cfg!(feature = "has-alloc") || !matches!(f, Family::FutGroup | Family::StrGroup))
        .collect();
    let fam = c.weighted(&fams);
    let mut nests = 3usize;
    let mut root = gen_comb(&mut c, p, fam, 0, &mut nests);
    // the type dimension (flat combinators only: every child a leaf)
    let flat = root.children.iter().all(|ch| matches!(ch, ChildSpec::Leaf(_)));
    if flat && matches!(root.family, Family::Join | Family::TryJoin | Family::Race | Family::RaceOk | Family::Merge | Family::Zip | Family::Chain) && c.coin(p.p_variant) {
        // 1 = children without drop glue, 2 = (Ok) values without drop glue,
        // 3 = errors without drop glue (Ok values with), 4 = a heterogeneous
        // tuple: element types with / without destructor, with a niche, wide
        let hetero = root.container == Container::Tuple && root.children.len() >= 2;
        let allowed: &[u8] = match (root.family, hetero) {
            (Family::Join | Family::Zip, true) => &[1, 2, 4, 4, 5],
            (Family::Join | Family::Zip, false) => &[1, 2, 5],
            (Family::TryJoin, true) => &[1, 2, 3, 4, 4, 5],
            (Family::TryJoin, false) => &[1, 2, 3, 5],
            (Family::RaceOk, _) => &[1, 2, 3],
            _ => &[1],
        };
        root.variant = allowed[c.choice(allowed.len())];
    }
    let mut fair_polls = 0u32;
    if p.fair {
        // designate one input that has an item on every poll
        // (one, sometimes two or three inputs: each of them must be served)
        let n = root.children.len().max(1);
        let how_many = c.weighted(&[(1usize, 60), (2, 25), (3, 15)]).min(n);
        for _ in 0..how_many {
            let d = c.choice(n);
            if let Some(ch) = root.children.get_mut(d) {
                *ch = ChildSpec::Leaf(LeafSpec { script: vec![], always: true, hint: 0, dropwake: false });
            }
        }
        // mostly a few rounds; sometimes a long run (rotation state that only
        // goes wrong after hundreds of polls)
        fair_polls = if c.coin(20) { (260 + c.choice(500)) as u32 } else { (n * (3 + c.choice(6))) as u32 };
    }
    if c.coin(p.p_panic) {
        let mut leaves = Vec::new();
        count_leaves_mut(&mut root, &mut leaves);
        if !leaves.is_empty() {
            let li = c.choice(leaves.len());
            let l = &mut leaves[li];
            if !l.always {
                let at = c.choice(l.script.len() + 1);
                l.script.truncate(at);
                l.script.push(Step::Panic);
            }
        }
    }
    let schedule = gen_schedule(&mut c, p);
    let no_drain = c.coin(p.p_nodrain);
    let drain: Vec<u8> = (0..24).map(|_| c.byte()).collect();
    let post_polls = if c.coin(p.p_post) { 1 + c.choice(2) as u8 } else { 0 };
    let storm = !p.fair && c.coin(p.p_storm);
    let unwind_drop = c.coin(128);
    let repoll_after_panic = !unwind_drop && c.coin(128);
    Case {
        root,
        schedule,
        drain,
        no_drain,
        fair_polls,
        post_polls,
        storm,
        unwind_drop,
        repoll_after_panic,
    }
}
