//! Engine for the combinator properties: decode bytes with the property's
//! profile, run the case, evaluate all trace oracles.

use crate::driver::{hash_of, Engine, Eval};
use crate::exec::run_case;
use crate::gen::{gen_case, Profile};
use crate::oracle;
use crate::props::{labels, CombProp, Tier};
use crate::world;

pub struct CombEngine {
    pub prop: &'static CombProp,
    pub profile: Profile,
}

impl CombEngine {
    pub fn new(prop: &'static CombProp, tier: Tier) -> Self {
        CombEngine { prop, profile: (prop.profile)(tier) }
    }
}

impl Engine for CombEngine {
    fn name(&self) -> &'static str {
        "comb"
    }
    fn eval(&self, bytes: &[u8], trace: bool) -> Eval {
        let case = gen_case(bytes, &self.profile);
        self.eval_case(&case, trace)
    }
}

impl CombEngine {
    pub fn eval_case(&self, case: &crate::spec::Case, trace: bool) -> Eval {
        let mut out = run_case(case, cfg!(feature = "cfg-std"), trace);
        oracle::check_trace(&mut out.world);
        let nontrivial = out.inconclusive.is_none() && (self.prop.nontrivial)(case, &out);
        let labels = labels(case, &out);
        let violations = if out.inconclusive.is_some() { Vec::new() } else { std::mem::take(&mut out.world.viol) };
        let trace_lines = std::mem::take(&mut out.world.trace);
        let ev = Eval {
            violations,
            nontrivial,
            hash: hash_of(case),
            labels,
            inconclusive: out.inconclusive,
            show: case.show(),
            trace: trace_lines,
        };
        drop(out);
        world::reset(cfg!(feature = "cfg-std"), false);
        ev
    }
}
