//! Engine for the combinator properties: decode bytes with the property's
//! profile, run the case, evaluate all trace oracles.

use crate::driver::{hash_of, Engine, Eval};
use crate::exec::run_case;
use crate::gen::{gen_case, Profile};
use crate::oracle;
use crate::props::{labels, CombProp, Tier};
use crate::world::{self, Family, Oracle};

pub struct CombEngine {
    pub prop: &'static CombProp,
    pub profile: Profile,
}

impl CombEngine {
    pub fn new(prop: &'static CombProp, tier: Tier) -> Self {
        CombEngine { prop, profile: (prop.profile)(tier) }
    }
}

impl Engine for CombEngine {
    fn name(&self) -> &'static str {
        "comb"
    }
    fn eval(&self, bytes: &[u8], trace: bool) -> Eval {
        let case = gen_case(bytes, &self.profile);
        self.eval_case(&case, trace)
    }
}

impl CombEngine {
    pub fn eval_case(&self, case: &crate::spec::Case, trace: bool) -> Eval {
        let mut out = run_case(case, cfg!(feature = "cfg-std"), trace);
        oracle::check_trace(&mut out.world);
        let nontrivial = out.inconclusive.is_none() && (self.prop.nontrivial)(case, &out);
        let labels = labels(case, &out);
        let mut violations = if out.inconclusive.is_some() { Vec::new() } else { std::mem::take(&mut out.world.viol) };
        // ownership clauses that are part of a family's own statement:
        // C05 "values already produced by other children are dropped rather than
        // returned", C06 "the losing children ... are dropped, unfinished,
        // together with the race future", C09 "drops - never yields - such
        // unmatched items"
        let fold: Option<(Family, Oracle)> = match self.prop.id {
            "C05" => Some((Family::TryJoin, Oracle::DV)),
            "C06" => Some((Family::Race, Oracle::D)),
            "C09" => Some((Family::Zip, Oracle::DV)),
            _ => None,
        };
        if let Some((fam, which)) = fold {
            let extra: Vec<world::Violation> = violations
                .iter()
                .filter(|v| v.oracle == which && v.fam == Some(fam))
                .map(|v| world::Violation { oracle: Oracle::Func(fam), msg: format!("[{:?}] {}", v.oracle, v.msg), fam: Some(fam) })
                .collect();
            violations.extend(extra);
        }
        let trace_lines = std::mem::take(&mut out.world.trace);
        let ev = Eval {
            violations,
            nontrivial,
            hash: hash_of(case),
            labels,
            inconclusive: out.inconclusive,
            show: case.show(),
            trace: trace_lines,
        };
        drop(out);
        world::reset(cfg!(feature = "cfg-std"), false);
        ev
    }
}
