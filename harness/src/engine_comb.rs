//! Engine for the combinator properties: decode bytes with the property's
//! profile, run the case, evaluate all trace oracles.

use crate::driver::{hash_of, Engine, Eval};
use crate::exec::{run_case, run_case_storm};
use crate::gen::{gen_case, Profile};
use crate::oracle;
use crate::props::{labels, CombProp, Tier};
use crate::world::{self, Family, Oracle};

pub struct CombEngine {
    pub prop: &'static CombProp,
    pub profile: Profile,
}

impl CombEngine {
    pub fn new(prop: &'static CombProp, tier: Tier) -> Self {
        CombEngine { prop, profile: (prop.profile)(tier) }
    }
}

impl Engine for CombEngine {
    fn name(&self) -> &'static str {
        "comb"
    }
    fn eval(&self, bytes: &[u8], trace: bool) -> Eval {
        let case = gen_case(bytes, &self.profile);
        self.eval_case(&case, trace)
    }
    fn describe(&self, bytes: &[u8]) -> String {
        gen_case(bytes, &self.profile).show()
    }
}

impl CombEngine {
    pub fn eval_case(&self, case: &crate::spec::Case, trace: bool) -> Eval {
        crate::driver::phase_begin();
        let mut out = if case.storm { run_case_storm(case, cfg!(feature = "cfg-std"), trace) } else { run_case(case, cfg!(feature = "cfg-std"), trace) };
        crate::driver::phase_mark();
        if case.fair_polls > 5_000 || case.root.children.len() > 5_000 {
            // the functional oracles are quadratic in the length of a run
            oracle::check_trace_fairness_only(&mut out.world);
        } else {
            oracle::check_trace(&mut out.world);
        }
        let nontrivial = out.inconclusive.is_none() && (self.prop.nontrivial)(case, &out);
        let labels = labels(case, &out);
        let mut violations = if out.inconclusive.is_some() { Vec::new() } else { std::mem::take(&mut out.world.viol) };
        if let Some(pc) = out.world.post_panic {
            // polled on after a caught panic: from that moment only ownership counts
            violations.retain(|v| v.at <= pc || matches!(v.oracle, Oracle::D | Oracle::DV));
        }
        if case.storm {
            // the helper threads invoke wakers at moments the harness cannot
            // order against child polls, so selectivity is not judged here
            violations.retain(|v| v.oracle != Oracle::S);
        }
        // Shared-oracle violations that belong to a family's own statement, when
        // that family is the culprit (see DESIGN.md section 4, Attribution):
        // * ownership clauses: C05 "values already produced by other children
        //   are dropped rather than returned", C06 "the losing children ... are
        //   dropped, unfinished, together with the race future", C09 "drops -
        //   never yields - such unmatched items";
        // * progress: every family statement says *when* the combinator
        //   resolves / yields / ends ("in the very poll in which ..."); a
        //   combinator that loses a wake-up, is left Pending at quiescence
        //   although it could go on, or never polls one of its children never
        //   gets there, so L, P and Conc count for the family that is to blame.
        let fams: &[Family] = match self.prop.id {
            "C04" => &[Family::Join],
            "C05" => &[Family::TryJoin],
            "C06" => &[Family::Race],
            "C07" => &[Family::RaceOk],
            "C08" => &[Family::Merge],
            "C09" => &[Family::Zip],
            "C10" => &[Family::Chain],
            "C19" => &[Family::WaitF, Family::WaitS],
            _ => &[],
        };
        if !fams.is_empty() {
            let own = |o: Oracle| match self.prop.id {
                "C05" | "C09" => o == Oracle::DV,
                "C06" => o == Oracle::D,
                _ => false,
            };
            let extra: Vec<world::Violation> = violations
                .iter()
                .filter(|v| matches!(v.fam, Some(f) if fams.contains(&f)))
                .filter(|v| matches!(v.oracle, Oracle::L | Oracle::P | Oracle::Conc) || own(v.oracle))
                .map(|v| world::Violation { oracle: Oracle::Func(v.fam.unwrap()), msg: format!("[{:?}] {}", v.oracle, v.msg), fam: v.fam, at: v.at })
                .collect();
            violations.extend(extra);
        }
        let trace_lines = std::mem::take(&mut out.world.trace);
        let ev = Eval {
            violations,
            nontrivial,
            hash: hash_of(case),
            labels,
            inconclusive: out.inconclusive,
            show: case.show(),
            trace: trace_lines,
        };
        drop(out);
        world::reset(cfg!(feature = "cfg-std"), false);
        ev
    }
}
