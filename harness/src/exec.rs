//! The hostile, wake-only executor: runs one decoded case against the real
//! combinator and leaves the complete trace in the `World`.

use crate::construct::{build_top, Top};
use crate::groups::GroupDyn;
use crate::spec::{Action, Case};
use crate::val::{res_shape, Val};
use crate::world::{self, Answer, Injected, NodeId, Oracle, PFlag, PendKind, Runaway, World};
use futures_core::Stream;
use std::future::Future;
use std::panic::{catch_unwind, AssertUnwindSafe};
use std::sync::atomic::{AtomicBool, AtomicU32, Ordering};
use std::sync::Arc;
use std::task::{Context, Poll, Waker};

pub struct RunOut {
    pub world: World,
    pub top: NodeId,
    pub inconclusive: Option<&'static str>,
    /// the fair drain ran to quiescence with the combinator still alive
    pub quiescent: bool,
    pub dropped_early: bool,
    pub injected_panic: bool,
    pub spurious_polls: u32,
    pub waker_changes_while_parked: u32,
}

pub struct Exec {
    top: Option<Top>,
    pub top_id: NodeId,
    held: Vec<Val>,
    held_r: Vec<Result<Val, Val>>,
    cur: Option<Arc<PFlag>>,
    pub finished: bool,
    pub panicked: bool,
    pub dropped: bool,
    pub inconclusive: Option<&'static str>,
    pub injected_panic: bool,
    polled_once: bool,
    pub spurious_polls: u32,
    pub waker_changes_while_parked: u32,
    /// a group was mutated (insert/extend/remove/reserve) since the last poll:
    /// the caller knows it has to poll again
    pub mutated: bool,
    /// drop the combinator from inside the unwinding of a panicking poll
    pub unwind_drop: bool,
    /// keep polling after an injected panic was caught
    pub repoll_after_panic: bool,
}

pub fn fresh_flag() -> Arc<PFlag> {
    let id = world::with(|w| {
        w.parent_seq += 1;
        w.parent_seq
    });
    Arc::new(PFlag {
        id,
        woken: AtomicBool::new(false),
        count: AtomicU32::new(0),
    })
}

/// Among all comb nodes that unwound in this poll, the innermost one.
pub fn innermost_panicked(w: &World) -> Option<NodeId> {
    let mut best = None;
    for n in &w.nodes {
        if n.panicked && !n.is_leaf() {
            let child_panicked = n.children().iter().any(|&c| w.nodes[c].panicked);
            if !child_panicked {
                best = Some(n.id);
            }
        }
    }
    best
}

impl Exec {
    pub fn new(case: &Case) -> Exec {
        let (top_id, top) = build_top(&case.root);
        let mut e = Exec::with_top(top_id, top);
        e.unwind_drop = case.unwind_drop;
        e.repoll_after_panic = case.repoll_after_panic;
        e
    }

    pub fn with_top(top_id: NodeId, top: Top) -> Exec {
        world::with(|w| w.top = Some(top_id));
        Exec {
            top: Some(top),
            top_id,
            held: Vec::new(),
            held_r: Vec::new(),
            cur: None,
            finished: false,
            panicked: false,
            dropped: false,
            inconclusive: None,
            injected_panic: false,
            polled_once: false,
            spurious_polls: 0,
            waker_changes_while_parked: 0,
            mutated: false,
            unwind_drop: false,
            repoll_after_panic: false,
        }
    }

    pub fn group(&mut self) -> Option<&mut Box<dyn GroupDyn>> {
        match self.top.as_mut() {
            Some(Top::G(g)) => Some(g),
            _ => None,
        }
    }

    pub fn alive(&self) -> bool {
        !self.finished && !self.panicked && !self.dropped && self.inconclusive.is_none()
    }

    fn last_was_item(&self) -> bool {
        world::with(|w| matches!(w.nodes[self.top_id].last_answer(), Some(Answer::Item(_))))
    }

    pub fn runnable(&self) -> bool {
        if !self.polled_once {
            return true;
        }
        if self.last_was_item() || self.mutated {
            return true;
        }
        self.cur
            .as_ref()
            .map(|f| f.woken.load(Ordering::SeqCst))
            .unwrap_or(true)
    }

    pub fn poll(&mut self, reuse: bool) {
        if !self.alive() {
            return;
        }
        if !self.runnable() {
            self.spurious_polls += 1;
        }
        let was_parked = self.polled_once && !self.runnable();
        let flag = match (&self.cur, reuse) {
            (Some(f), true) => f.clone(),
            _ => {
                if was_parked {
                    self.waker_changes_while_parked += 1;
                }
                fresh_flag()
            }
        };
        flag.woken.store(false, Ordering::SeqCst);
        self.mutated = false;
        self.cur = Some(flag.clone());
        let id = self.top_id;
        world::with(|w| {
            w.epoch += 1;
            w.in_top_poll = true;
            w.polls_in_top = 0;
            w.cur_parent = Some(flag.clone());
            if w.trace_on {
                let e = w.epoch;
                w.trace.push(format!(" POLL #{} (task waker w{}{})", e, flag.id, if reuse { ", reused" } else { "" }));
            }
        });
        let waker: Waker = flag.clone().into();
        let poll_begin = world::with(|w| w.clock);
        world::comb_poll_begin(id, &waker, true);
        let mut cx = Context::from_waker(&waker);
        self.polled_once = true;
        enum Out {
            Pending,
            F(Val),
            R(Result<Val, Val>),
            Item(Val),
            End,
        }
        // The owner of the combinator: if the poll unwinds and the case says
        // so, the combinator is dropped by that very unwinding (while
        // `std::thread::panicking()` is true), as happens to a combinator that
        // lives in the frame - or the async block - the panic passes through.
        struct Owner<'a> {
            slot: &'a mut Option<Top>,
            id: NodeId,
            armed: bool,
        }
        impl Drop for Owner<'_> {
            fn drop(&mut self) {
                if self.armed && std::thread::panicking() {
                    world::with(|w| {
                        w.in_top_poll = false;
                        if w.trace_on {
                            w.trace.push(" DROP combinator (by the unwinding of the panic)".into());
                        }
                    });
                    world::node_drop_begin(self.id);
                    let t = self.slot.take();
                    drop(t);
                    world::node_dropped(self.id);
                }
            }
        }
        let is_group = matches!(self.top, Some(Top::G(_)));
        let armed = self.unwind_drop;
        let slot = &mut self.top;
        let r = catch_unwind(AssertUnwindSafe(|| {
            let mut owner = Owner { slot, id, armed };
            let out = match owner.slot.as_mut().unwrap() {
                Top::F(f) => match f.as_mut().poll(&mut cx) {
                    Poll::Pending => Out::Pending,
                    Poll::Ready(v) => Out::F(v),
                },
                Top::R(f) => match f.as_mut().poll(&mut cx) {
                    Poll::Pending => Out::Pending,
                    Poll::Ready(v) => Out::R(v),
                },
                Top::S(s) => match s.as_mut().poll_next(&mut cx) {
                    Poll::Pending => Out::Pending,
                    Poll::Ready(Some(v)) => Out::Item(v),
                    Poll::Ready(None) => Out::End,
                },
                Top::G(g) => match g.poll_next(&mut cx) {
                    Poll::Pending => Out::Pending,
                    Poll::Ready(Some(v)) => Out::Item(v),
                    Poll::Ready(None) => Out::End,
                },
            };
            owner.armed = false;
            out
        }));
        world::with(|w| w.in_top_poll = false);
        if self.top.is_none() {
            // dropped by the unwinding
            self.dropped = true;
            self.after_drop_checks();
        }
        match r {
            Ok(Out::Pending) => {
                world::comb_poll_end(id, Answer::Pend(PendKind::Comb));
                self.check_l_inpoll(poll_begin);
            }
            Ok(Out::F(v)) => {
                world::comb_poll_end(id, Answer::Ready(v.shape()));
                self.held.push(v);
                self.finished = true;
            }
            Ok(Out::R(v)) => {
                world::comb_poll_end(id, Answer::Ready(res_shape(&v)));
                self.held_r.push(v);
                self.finished = true;
            }
            Ok(Out::Item(v)) => {
                world::comb_poll_end(id, Answer::Item(v.shape()));
                self.held.push(v);
            }
            Ok(Out::End) => {
                world::comb_poll_end(id, Answer::End);
                // a group that returned None can be refilled and used again
                self.finished = !is_group;
            }
            Err(e) if e.is::<Injected>() && self.repoll_after_panic && !self.dropped => {
                // the caller caught the panic and keeps the combinator: what it
                // does from now on is unspecified, except that it must still own
                // and release everything exactly once and never hand out a value
                // that no child produced
                self.injected_panic = true;
                world::comb_poll_end(id, Answer::Panic);
                world::with(|w| {
                    if w.post_panic.is_none() {
                        w.post_panic = Some(w.clock);
                    }
                    if w.trace_on {
                        w.trace.push(" (the caller catches the panic and goes on polling; only ownership is judged from here on)".into());
                    }
                });
                // it polls again without waiting for a wake-up
                self.mutated = true;
            }
            Err(e) => {
                world::comb_poll_panicked(id);
                self.panicked = true;
                if e.is::<Runaway>() {
                    self.inconclusive = Some("runaway: a child was polled more than 20000 times inside one poll");
                } else if e.is::<Injected>() {
                    self.injected_panic = true;
                } else if world::with(|w| w.post_panic.is_some()) {
                    // a panic of a combinator that is polled on after a child's
                    // panic was caught: unspecified, not judged
                } else {
                    let msg = world::panic_msg(&e);
                    world::with(|w| {
                        let at = innermost_panicked(w).unwrap_or(id);
                        let fam = w.nodes[at].family().unwrap();
                        let p = w.path(at);
                        w.violate_f(Oracle::Panic(fam), Some(fam), format!("poll of {} panicked: {}", p, msg));
                    });
                }
            }
        }
            if let Some(Top::G(g)) = self.top.as_mut() {
            g.after_poll();
        }
    }

    /// C03: poll the combinator again *after* it produced its final result.
    /// That is outside the Future/Stream contract, so the combinator may panic
    /// or answer anything; the only thing judged is that it polls no child
    /// (Q, recorded by the children themselves).
    pub fn poll_post(&mut self) {
        if self.dropped || self.panicked || !self.finished || self.inconclusive.is_some() {
            return;
        }
        if matches!(self.top, Some(Top::G(_)) | None) {
            return;
        }
        let flag = fresh_flag();
        world::with(|w| {
            w.in_top_poll = true;
            w.polls_in_top = 0;
            if w.trace_on {
                w.trace.push(" POLL after the final result (its answer is not judged, only child polls are)".into());
            }
        });
        let waker: Waker = flag.into();
        let mut cx = Context::from_waker(&waker);
        let top = self.top.as_mut().unwrap();
        let held = &mut self.held;
        let held_r = &mut self.held_r;
        let r = catch_unwind(AssertUnwindSafe(|| match top {
            Top::F(f) => {
                if let Poll::Ready(v) = f.as_mut().poll(&mut cx) {
                    held.push(v);
                }
            }
            Top::R(f) => {
                if let Poll::Ready(v) = f.as_mut().poll(&mut cx) {
                    held_r.push(v);
                }
            }
            Top::S(s) => {
                if let Poll::Ready(Some(v)) = s.as_mut().poll_next(&mut cx) {
                    held.push(v);
                }
            }
            Top::G(_) => {}
        }));
        world::with(|w| w.in_top_poll = false);
        if let Err(e) = r {
            if e.is::<Runaway>() {
                self.inconclusive = Some("runaway: a child was polled more than 20000 times inside one poll");
            }
            // a panic ("polled after completion") is acceptable behaviour;
            // the combinator is only dropped from here on
            self.panicked = true;
        }
    }

    pub fn drop_top(&mut self) {
        if self.dropped {
            return;
        }
        self.dropped = true;
        world::with(|w| {
            if w.trace_on {
                w.trace.push(" DROP combinator".into());
            }
        });
        let top = self.top.take();
        world::node_drop_begin(self.top_id);
        let r = catch_unwind(AssertUnwindSafe(move || drop(top)));
        let id = self.top_id;
        if let Err(e) = r {
            if e.is::<Runaway>() {
                self.inconclusive = Some("runaway during drop");
            } else {
                let msg = world::panic_msg(&e);
                world::with(|w| {
                    let fam = w.nodes[id].family().unwrap();
                    w.violate_f(Oracle::Panic(fam), Some(fam), format!("drop of the combinator panicked: {}", msg));
                });
            }
        }
        // the top node itself has no DropMark: account for it here, which also
        // checks that every child it owned is gone.
        world::node_dropped(id);
        self.after_drop_checks();
    }

    fn after_drop_checks(&mut self) {
        // deeper levels: everything in the tree must be gone now
        world::with(|w| {
            let ids: Vec<NodeId> = (0..w.nodes.len()).collect();
            for i in ids {
                if w.nodes[i].drops == 0 && w.nodes[i].parent.is_some() && !w.nodes[i].untracked_drop {
                    let m = format!(
                        "{} still alive after the drop of the combinator that was given it returned",
                        w.path(i)
                    );
                    let f = w.owner_family(i);
                    w.violate_f(Oracle::D, f, m);
                }
            }
        });
    }

    /// L (outside a poll): `target` just invoked, for the first time, the
    /// waker of its most recent poll. If it is a live child that answered
    /// Pending and the combinator answered Pending, the task must be woken now.
    pub fn check_l_event(&self, target: NodeId) {
        if !self.alive() || !self.polled_once {
            return;
        }
        let woken = self.cur.as_ref().map(|f| f.woken.load(Ordering::SeqCst)).unwrap_or(true);
        if woken {
            return;
        }
        let id = self.top_id;
        world::with(|w| {
            if !matches!(w.nodes[id].last_answer(), Some(a) if a.is_pend()) {
                return;
            }
            let n = &w.nodes[target];
            if !matches!(n.last_answer(), Some(a) if a.is_pend()) || !w.live(target) || w.held_back(target) {
                return;
            }
            if !w.viol.iter().any(|v| v.oracle == Oracle::L) {
                let m = format!(
                    "lost wake-up: {} returned Pending and then invoked the waker of its most recent poll, but the task that most recently polled the combinator was not woken",
                    w.path(target)
                );
                let f = w.lost_wake_culprit(target).and_then(|c| w.nodes[c].family());
                w.violate_f(Oracle::L, f, m);
            }
        });
    }

    /// L (inside a poll): a child's current waker was invoked during this
    /// top-level poll (self-wake or from a sibling's poll) and the child was
    /// not polled again before the combinator returned Pending: the task
    /// must have been woken.
    fn check_l_inpoll(&self, poll_begin: u32) {
        if !self.alive() {
            return;
        }
        let woken = self.cur.as_ref().map(|f| f.woken.load(Ordering::SeqCst)).unwrap_or(true);
        if woken {
            return;
        }
        let id = self.top_id;
        world::with(|w| {
            if !matches!(w.nodes[id].last_answer(), Some(a) if a.is_pend()) {
                return;
            }
            let mut bad = None;
            for &l in &w.leaves {
                let n = &w.nodes[l];
                if let (Some(a), Some(wk)) = (n.last_answer(), n.wakers.last()) {
                    if a.is_pend() && !wk.fires.is_empty() && w.live(l) && !w.held_back(l) {
                        bad = Some(l);
                        break;
                    }
                }
            }
            if let Some(b) = bad {
                if !w.viol.iter().any(|v| v.oracle == Oracle::L) {
                    let during = w.nodes[b].wakers.last().and_then(|wk| wk.fires.first().cloned()).map(|c| c > poll_begin).unwrap_or(false);
                    let m = format!(
                        "lost wake-up: the waker handed to {} in its most recent poll was invoked {}, the child was not polled again before the combinator returned Pending, and the task that polled it was not woken",
                        w.path(b),
                        if during { "during this poll of the combinator (from inside a child's poll)" } else { "before this poll of the combinator" }
                    );
                    let f = w.lost_wake_culprit(b).and_then(|c| w.nodes[c].family());
                    w.violate_f(Oracle::L, f, m);
                }
            }
        });
    }

    /// leaves that currently hold at least one waker, in creation order
    fn fire_targets(&self) -> Vec<NodeId> {
        world::with(|w| {
            w.leaves
                .iter()
                .cloned()
                .filter(|&l| !w.nodes[l].wakers.is_empty())
                .collect()
        })
    }

    pub fn act(&mut self, a: &Action) {
        if self.inconclusive.is_some() {
            return;
        }
        match *a {
            Action::Poll { reuse } => self.poll(reuse),
            Action::Fire { leaf, which, twice, thread } => {
                let t = self.fire_targets();
                if t.is_empty() {
                    return;
                }
                let target = t[(leaf as usize * t.len()) >> 8];
                let r = catch_unwind(AssertUnwindSafe(|| {
                    if thread {
                        world::fire_from_thread(target, which as usize)
                    } else {
                        world::fire(target, which as usize, twice)
                    }
                }));
                match r {
                    Err(_) => self.inconclusive = Some("runaway inside a waker"),
                    Ok(info) => {
                        if info.first_on_current {
                            self.check_l_event(target);
                        }
                    }
                }
            }
            Action::Drop => self.drop_top(),
            Action::FireAll => {
                let cands: Vec<NodeId> = world::with(|w| {
                    w.leaves
                        .iter()
                        .cloned()
                        .filter(|&l| {
                            let n = &w.nodes[l];
                            match (n.last_answer(), n.wakers.last()) {
                                (Some(Answer::Pend(k)), Some(wk)) => *k != PendKind::Never && wk.fires.is_empty() && w.live(l),
                                _ => false,
                            }
                        })
                        .collect()
                });
                for target in cands {
                    match catch_unwind(AssertUnwindSafe(|| world::fire(target, 0, false))) {
                        Err(_) => {
                            self.inconclusive = Some("runaway inside a waker");
                            return;
                        }
                        Ok(info) => {
                            if info.first_on_current {
                                self.check_l_event(target);
                            }
                        }
                    }
                }
            }
        }
    }

    /// Fair drain. Returns true if it reached quiescence with the combinator
    /// still unfinished.
    pub fn drain(&mut self, order: &[u8], bound: usize) -> bool {
        let mut oi = 0;
        let mut steps = 0;
        loop {
            if !self.alive() {
                return false;
            }
            steps += 1;
            if steps > bound {
                self.inconclusive = Some("step bound hit in the fair drain");
                return false;
            }
            if self.runnable() {
                self.poll(false);
                continue;
            }
            // fire the current waker of some live pending non-Never leaf
            let cands: Vec<NodeId> = world::with(|w| {
                w.leaves
                    .iter()
                    .cloned()
                    .filter(|&l| {
                        let n = &w.nodes[l];
                        match (n.last_answer(), n.wakers.last()) {
                            (Some(Answer::Pend(k)), Some(wk)) => {
                                *k != PendKind::Never && wk.fires.is_empty() && w.live(l)
                            }
                            _ => false,
                        }
                    })
                    .collect()
            });
            if cands.is_empty() {
                return true;
            }
            // the generated order first; long drains go on with a sequence
            // derived from it (never a constant choice)
            let b = if order.is_empty() { 0 } else { order[oi % order.len()].wrapping_add(((oi / order.len()) as u8).wrapping_mul(37)) };
            let late = oi >= order.len();
            oi += 1;
            // in long drains, now and then every outstanding waker at once
            let targets: Vec<NodeId> = if late && b % 5 == 4 { cands.clone() } else { vec![cands[(b as usize * cands.len()) >> 8]] };
            for target in targets {
                let r = catch_unwind(AssertUnwindSafe(|| world::fire(target, 0, false)));
                match r {
                    Err(_) => {
                        self.inconclusive = Some("runaway inside a waker");
                        return false;
                    }
                    Ok(info) => {
                        if info.first_on_current {
                            self.check_l_event(target);
                        }
                    }
                }
            }
        }
    }

    pub fn finish(mut self) -> (Vec<Val>, Vec<Result<Val, Val>>) {
        self.drop_top();
        (std::mem::take(&mut self.held), std::mem::take(&mut self.held_r))
    }
}

pub fn run_case(case: &Case, std_cfg: bool, trace: bool) -> RunOut {
    world::reset(std_cfg, trace);
    let mut ex = Exec::new(case);
    for a in &case.schedule {
        ex.act(a);
    }
    let mut quiescent = false;
    if case.fair_polls > 0 {
        // C17 mode: keep polling; the designated input never ends
        for i in 0..case.fair_polls as usize {
            if !ex.alive() {
                break;
            }
            if ex.runnable() {
                ex.poll(false);
            } else {
                break;
            }
            // sprinkle wake-ups of the other inputs
            if let Some(b) = case.drain.get(i) {
                if b & 1 == 1 {
                    ex.act(&Action::Fire {
                        leaf: *b,
                        which: 0,
                        twice: false,
                        thread: false,
                    });
                }
            }
        }
    } else if !case.no_drain {
        let bound = case.root.script_steps() * 4 + 64;
        quiescent = ex.drain(&case.drain, bound);
    }
    for _ in 0..case.post_polls {
        ex.poll_post();
    }
    let dropped_early = ex.dropped;
    let top = ex.top_id;
    let inconclusive = ex.inconclusive;
    let injected_panic = ex.injected_panic;
    let spurious_polls = ex.spurious_polls;
    let waker_changes_while_parked = ex.waker_changes_while_parked;
    let was_alive = ex.alive();
    // quiescence oracle P must look at the world before the final drop
    if quiescent && was_alive {
        crate::oracle::check_progress(top);
    }
    let (held, held_r) = ex.finish();
    // stale wakers after the combinator is gone must still be harmless
    let leaves: Vec<NodeId> = world::with(|w| w.leaves.clone());
    for (i, l) in leaves.iter().enumerate() {
        if i < 3 {
            let _ = catch_unwind(AssertUnwindSafe(|| world::fire(*l, 0, false)));
        }
    }
    drop(held);
    drop(held_r);
    let world = world::take_world();
    RunOut {
        world,
        top,
        inconclusive,
        quiescent: quiescent && was_alive,
        dropped_early,
        injected_panic,
        spurious_polls,
        waker_changes_while_parked,
    }
}

// ---------------------------------------------------------------- storm mode
//
// Truly concurrent wake-ups ("from another thread"). The scripted fires are
// replaced: after every poll the wakers of the most recent poll of all live
// pending children are handed to two helper threads, which invoke them at a
// moment the harness does not control, while the task thread is already
// polling the combinator again (because an earlier wake-up arrived, or
// spuriously, with a fresh task waker), or is mutating the group. All
// bookkeeping stays on the task thread; the helpers only ever touch the
// `Waker` clones they were given.
//
// The verdict does not depend on timing: when every waker that was handed out
// has been invoked (the helpers are idle), the last poll answered Pending and
// the task waker of that poll has not been woken, no wake-up is outstanding
// any more - that is the quiescence of oracle P, reached through real
// interleavings. A wall clock is never consulted.

struct StormJob {
    waker: Waker,
    spin: u32,
    /// synchronised start: the helper reports that it holds the job and then
    /// busy-waits for the task thread's go, so that the wake-up and the task
    /// thread's next step start from a common moment
    gate: Option<Arc<Gate>>,
}

struct Gate {
    ready: std::sync::atomic::AtomicUsize,
    go: AtomicBool,
}

struct StormPool {
    tx: Vec<std::sync::mpsc::Sender<StormJob>>,
    outstanding: Arc<std::sync::atomic::AtomicUsize>,
    panicked: Arc<AtomicBool>,
    /// a storm case is running: the helpers busy-poll their queues instead of
    /// blocking (a blocked helper takes tens of microseconds to come back)
    hot: Arc<AtomicBool>,
}

impl StormPool {
    fn new(helpers: usize) -> StormPool {
        let outstanding = Arc::new(std::sync::atomic::AtomicUsize::new(0));
        let panicked = Arc::new(AtomicBool::new(false));
        let hot = Arc::new(AtomicBool::new(false));
        let mut tx = Vec::new();
        for _ in 0..helpers {
            let (s, r) = std::sync::mpsc::channel::<StormJob>();
            let out = outstanding.clone();
            let pan = panicked.clone();
            let hot = hot.clone();
            // a crash inside a helper is attributed to the case of its task thread
            let wid = crate::crash::worker();
            std::thread::spawn(move || loop {
                if crate::crash::worker() != wid {
                    crate::crash::set_worker(wid);
                }
                let job = if hot.load(Ordering::Relaxed) {
                    match r.try_recv() {
                        Ok(j) => j,
                        Err(std::sync::mpsc::TryRecvError::Empty) => {
                            std::hint::spin_loop();
                            continue;
                        }
                        Err(_) => break,
                    }
                } else {
                    match r.recv() {
                        Ok(j) => j,
                        Err(_) => break,
                    }
                };
                if let Some(g) = &job.gate {
                    g.ready.fetch_add(1, Ordering::SeqCst);
                    let mut n = 0u32;
                    while !g.go.load(Ordering::SeqCst) && n < 2_000_000 {
                        std::hint::spin_loop();
                        n += 1;
                    }
                }
                for _ in 0..job.spin {
                    std::hint::spin_loop();
                }
                let ok = catch_unwind(AssertUnwindSafe(|| {
                    job.waker.wake_by_ref();
                    drop(job.waker);
                }))
                .is_ok();
                if !ok {
                    pan.store(true, Ordering::SeqCst);
                }
                out.fetch_sub(1, Ordering::SeqCst);
            });
            tx.push(s);
        }
        StormPool { tx, outstanding, panicked, hot }
    }
    fn send(&self, k: usize, waker: Waker, spin: u32, gate: Option<Arc<Gate>>) {
        self.outstanding.fetch_add(1, Ordering::SeqCst);
        if self.tx[k % self.tx.len()].send(StormJob { waker, spin, gate }).is_err() {
            self.outstanding.fetch_sub(1, Ordering::SeqCst);
        }
    }
    fn idle(&self) -> bool {
        self.outstanding.load(Ordering::SeqCst) == 0
    }
}

thread_local! {
    static STORM: std::cell::RefCell<Option<StormPool>> = std::cell::RefCell::new(None);
}

fn with_pool<R>(f: impl FnOnce(&StormPool) -> R) -> R {
    STORM.with(|p| {
        let mut g = p.borrow_mut();
        if g.is_none() {
            *g = Some(StormPool::new(2));
        }
        f(g.as_ref().unwrap())
    })
}

pub fn storm_begin() {
    with_pool(|p| p.hot.store(true, Ordering::SeqCst));
}

/// Wait until the helpers have invoked everything they hold; returns whether
/// one of those invocations panicked.
pub fn storm_end() -> bool {
    let mut spins = 0u64;
    while !with_pool(|p| p.idle()) {
        spins += 1;
        if spins % 64 == 0 {
            std::thread::yield_now();
        } else {
            std::hint::spin_loop();
        }
    }
    with_pool(|p| {
        p.hot.store(false, Ordering::SeqCst);
        p.panicked.swap(false, Ordering::SeqCst)
    })
}

/// A deterministic byte source for storm decisions (spin offsets, extra polls).
pub struct StormBytes {
    bytes: Vec<u8>,
    i: usize,
}
impl StormBytes {
    pub fn new(bytes: Vec<u8>) -> Self {
        StormBytes { bytes, i: 0 }
    }
    pub fn next(&mut self) -> u8 {
        let b = if self.bytes.is_empty() { 0 } else { self.bytes[self.i % self.bytes.len()] };
        // vary the stream on every lap
        let lap = (self.i / self.bytes.len().max(1)) as u8;
        self.i += 1;
        b.wrapping_add(lap.wrapping_mul(37))
    }
}

impl Exec {
    /// hand the not-yet-sent wakers of the most recent poll of every live
    /// pending child to the helpers; returns how many were sent
    pub fn storm_send(&mut self, bytes: &mut StormBytes) -> usize {
        let jobs: Vec<Waker> = world::with(|w| {
            let mut v = Vec::new();
            let leaves = w.leaves.clone();
            for l in leaves {
                let live = w.live(l);
                let n = &mut w.nodes[l];
                let pending = matches!(n.polls.last().map(|p| &p.answer), Some(Answer::Pend(k)) if *k != PendKind::Never);
                if !pending || !live {
                    continue;
                }
                if let Some(rec) = n.wakers.last_mut() {
                    if !rec.sent && rec.fires.is_empty() {
                        rec.sent = true;
                        // selectivity stays conservative: the invocation is
                        // counted now although it happens a little later
                        n.fire_count += 1;
                        if let Some(wk) = rec.waker.clone() {
                            v.push(wk);
                        }
                    }
                }
            }
            if w.trace_on && !v.is_empty() {
                w.trace.push(format!("  {} waker(s) handed to the helper threads", v.len()));
            }
            v
        });
        let n = jobs.len();
        if n == 0 {
            return 0;
        }
        let gate = Arc::new(Gate { ready: std::sync::atomic::AtomicUsize::new(0), go: AtomicBool::new(false) });
        let mut gated = [false; 2];
        let mut ngated = 0usize;
        with_pool(|p| {
            for (i, wk) in jobs.into_iter().enumerate() {
                let b = bytes.next();
                let k = (i + (b & 1) as usize) % 2;
                // the first job of each helper in this batch starts synchronised
                let g = if !gated[k] {
                    gated[k] = true;
                    ngated += 1;
                    Some(gate.clone())
                } else {
                    None
                };
                p.send(k, wk, ((b >> 2) as u32) * 2, g);
            }
        });
        let mut spins = 0u32;
        while gate.ready.load(Ordering::SeqCst) < ngated && spins < 2_000_000 {
            std::hint::spin_loop();
            spins += 1;
            if spins % 4096 == 0 {
                std::thread::yield_now();
            }
        }
        gate.go.store(true, Ordering::SeqCst);
        // the task thread's own offset from the common start
        for _ in 0..(bytes.next() >> 2) as u32 {
            std::hint::spin_loop();
        }
        n
    }

    /// The storm counterpart of the fair drain: poll whenever the task was
    /// woken (now and then also spuriously, with a fresh task waker, while
    /// wake-ups are in flight), hand out every new waker, stop when the
    /// combinator is done or when no wake-up is outstanding any more.
    /// Returns true if it reached quiescence with the combinator unfinished.
    pub fn storm_drain(&mut self, bytes: &mut StormBytes, bound: usize, drop_after: Option<usize>) -> bool {
        let mut steps = 0usize;
        let mut polls = 0usize;
        loop {
            if !self.alive() {
                return false;
            }
            steps += 1;
            if steps > bound {
                self.inconclusive = Some("step bound hit in storm mode");
                return false;
            }
            if matches!(drop_after, Some(d) if polls > d) {
                // cancellation while wake-ups are in flight
                self.drop_top();
                return false;
            }
            if self.runnable() {
                self.poll(bytes.next() & 3 == 0);
                polls += 1;
                self.storm_send(bytes);
                // now and then poll again at once, spuriously and with a fresh
                // task waker, while the helpers are still at work
                let extra = match bytes.next() {
                    0..=99 => 0,
                    100..=219 => 1,
                    _ => 2,
                };
                for _ in 0..extra {
                    let id = self.top_id;
                    if self.alive() && world::with(|w| matches!(w.nodes[id].last_answer(), Some(a) if a.is_pend())) {
                        self.poll(false);
                        polls += 1;
                        self.storm_send(bytes);
                    }
                }
                continue;
            }
            // parked: wait for a wake-up or for the helpers to run dry
            let mut spins = 0u64;
            loop {
                if self.runnable() {
                    break;
                }
                if with_pool(|p| p.idle()) {
                    if !self.runnable() {
                        return true;
                    }
                    break;
                }
                spins += 1;
                if spins % 256 == 0 {
                    std::thread::yield_now();
                } else {
                    std::hint::spin_loop();
                }
            }
        }
    }
}

pub fn run_case_storm(case: &Case, std_cfg: bool, trace: bool) -> RunOut {
    world::reset(std_cfg, trace);
    storm_begin();
    let mut ex = Exec::new(case);
    let mut sb: Vec<u8> = case
        .schedule
        .iter()
        .map(|a| match a {
            Action::Poll { reuse } => 0x40 | *reuse as u8,
            Action::Fire { leaf, .. } => *leaf,
            Action::Drop => 0xfd,
            Action::FireAll => 0x7f,
        })
        .collect();
    sb.extend_from_slice(&case.drain);
    let mut bytes = StormBytes::new(sb);
    let drop_after = case.schedule.iter().position(|a| matches!(a, Action::Drop));
    let bound = case.root.script_steps() * 6 + 64;
    let quiescent = ex.storm_drain(&mut bytes, bound, drop_after);
    let dropped_early = ex.dropped;
    let was_alive = ex.alive();
    if quiescent && was_alive {
        crate::oracle::check_progress(ex.top_id);
    }
    let top = ex.top_id;
    let inconclusive = ex.inconclusive;
    let injected_panic = ex.injected_panic;
    let spurious_polls = ex.spurious_polls;
    let waker_changes_while_parked = ex.waker_changes_while_parked;
    let (held, held_r) = ex.finish();
    // the helpers finish what they hold: wake-ups after completion / after the
    // drop must be harmless too
    if storm_end() {
        world::with(|w| {
            let f = w.nodes[top].family();
            w.violate_f(world::Oracle::WakerPanic, f, "invoking a waker from a helper thread, concurrently with polls of the combinator, panicked".into());
        });
    }
    drop(held);
    drop(held_r);
    let world = world::take_world();
    RunOut {
        world,
        top,
        inconclusive,
        quiescent: quiescent && was_alive,
        dropped_early,
        injected_panic,
        spurious_polls,
        waker_changes_while_parked,
    }
}
