//! Thread-local log of everything the combinators under test do to the
//! harness-owned children: polls, wakers handed out, values produced, drops.
//! Reset at the top of every case.

use crate::val::{Shape, TokKind, Val};
use std::cell::RefCell;
use std::sync::atomic::{AtomicBool, AtomicU32, Ordering};
use std::sync::Arc;
use std::task::{Context, Wake, Waker};

pub type NodeId = usize;

#[derive(Clone, Copy, Debug, PartialEq, Eq, Hash)]
pub enum Flavor {
    F,
    R,
    S,
}

#[derive(Clone, Copy, Debug, PartialEq, Eq, Hash, PartialOrd, Ord)]
pub enum Family {
    Join,
    TryJoin,
    Race,
    RaceOk,
    Merge,
    Zip,
    Chain,
    FutGroup,
    StrGroup,
    WaitF,
    WaitS,
    /// concurrent-stream pipeline (source + work futures)
    Co,
}

impl Family {
    pub fn selective(self) -> bool {
        matches!(
            self,
            Family::Join
                | Family::TryJoin
                | Family::Merge
                | Family::Zip
                | Family::FutGroup
                | Family::StrGroup
        )
    }
    pub fn is_stream(self) -> bool {
        matches!(
            self,
            Family::Merge
                | Family::Zip
                | Family::Chain
                | Family::FutGroup
                | Family::StrGroup
                | Family::WaitS
        )
    }
    pub fn child_flavor(self) -> Flavor {
        match self {
            Family::Join | Family::Race | Family::FutGroup | Family::WaitF => Flavor::F,
            Family::TryJoin | Family::RaceOk => Flavor::R,
            _ => Flavor::S,
        }
    }
    /// flavour of the node itself as seen by its parent
    pub fn own_flavor(self) -> Flavor {
        match self {
            Family::Join | Family::Race | Family::WaitF => Flavor::F,
            Family::TryJoin | Family::RaceOk => Flavor::R,
            _ => Flavor::S,
        }
    }
}

#[derive(Clone, Copy, Debug, PartialEq, Eq, Hash)]
pub enum Container {
    Tuple,
    Array,
    Vec,
    /// `a.join(b)`, `s.merge(t)` ... extension-trait entry points
    Ext,
    Group,
    KeyedGroup,
}

#[derive(Clone, Copy, Debug, PartialEq, Eq, Hash)]
pub enum Step {
    /// Pending; the executor fires the stored waker later
    Later,
    /// wake_by_ref inside the poll, then Pending
    SelfWake,
    /// fire the most recent waker of the k-th leaf (mod #leaves) from inside
    /// this poll, then Pending (own waker fired later by the executor)
    WakeSib(u8),
    /// Pending forever; the drain never fires this child's waker
    Never,
    /// Ready(Ok|Err) for futures, Some(item) for streams
    Yield(bool),
    /// like Yield(true), but the child invokes its own waker first (a child
    /// may wake itself and complete / yield in the same poll)
    WakeYield,
    /// streams: end now (futures: Ready(Ok))
    End,
    /// fault injection: panic inside poll
    Panic,
}

#[derive(Clone, Copy, Debug, PartialEq, Eq)]
pub enum PendKind {
    Later,
    SelfWake,
    WakeSib,
    Never,
    Comb,
}

#[derive(Clone, Debug, PartialEq, Eq)]
pub enum Answer {
    Pend(PendKind),
    Ready(Shape),
    Item(Shape),
    End,
    Panic,
}

impl Answer {
    pub fn is_pend(&self) -> bool {
        matches!(self, Answer::Pend(_))
    }
    pub fn show(&self) -> String {
        match self {
            Answer::Pend(k) => format!("Pending({:?})", k),
            Answer::Ready(s) => format!("Ready({})", s.show()),
            Answer::Item(s) => format!("Some({})", s.show()),
            Answer::End => "None".into(),
            Answer::Panic => "PANIC".into(),
        }
    }
}

#[derive(Clone, Debug)]
pub struct PollRec {
    pub begin: u32,
    pub end: u32,
    pub epoch: u32,
    pub answer: Answer,
}

pub struct WakerRec {
    pub waker: Option<Waker>,
    /// clocks at which the harness invoked this waker
    pub fires: Vec<u32>,
    /// for probe wakers: how often the wrapped waker was invoked (by anyone)
    pub ext: Option<Arc<AtomicU32>>,
    /// storm mode: handed to a helper thread (which invokes it at a time the
    /// harness does not control)
    pub sent: bool,
}

pub enum NodeKind {
    Leaf {
        flavor: Flavor,
        script: Vec<Step>,
        pos: usize,
        /// C17: yields an item on every poll, forever
        always: bool,
        /// streams: report an exact size_hint
        hint: u8,
        /// invoke the most recent waker from the destructor
        dropwake: bool,
    },
    Comb {
        family: Family,
        container: Container,
        children: Vec<NodeId>,
    },
}

pub struct NodeRec {
    pub id: NodeId,
    pub parent: Option<NodeId>,
    pub index: usize,
    pub kind: NodeKind,
    pub polls: Vec<PollRec>,
    pub wakers: Vec<WakerRec>,
    pub finished_at: Option<u32>,
    pub panicked: bool,
    pub drops: u32,
    pub dropped_at: Option<u32>,
    /// group members: clock of `remove`
    pub removed_at: Option<u32>,
    /// group members: key index returned by insert
    pub key: Option<usize>,
    /// sum of all waker fires seen at the end of the previous poll (S oracle)
    pub fire_snapshot: u64,
    /// a child whose type has no destructor: its drop cannot be observed
    pub untracked_drop: bool,
    /// leaves: number of waker invocations recorded so far (kept incrementally:
    /// long runs must not re-count them on every poll)
    pub fire_count: u64,
    /// clock at which the drop of this (combinator) node began
    pub drop_begin: Option<u32>,
    /// "work" futures of concurrent streams: item index they process
    pub item: Option<usize>,
    pub created_at: u32,
}

impl NodeRec {
    pub fn is_leaf(&self) -> bool {
        matches!(self.kind, NodeKind::Leaf { .. })
    }
    pub fn family(&self) -> Option<Family> {
        match &self.kind {
            NodeKind::Comb { family, .. } => Some(*family),
            _ => None,
        }
    }
    pub fn children(&self) -> &[NodeId] {
        match &self.kind {
            NodeKind::Comb { children, .. } => children,
            _ => &[],
        }
    }
    pub fn last_answer(&self) -> Option<&Answer> {
        self.polls.last().map(|p| &p.answer)
    }
    pub fn total_fires(&self) -> u64 {
        if self.is_leaf() {
            return self.fire_count;
        }
        self.wakers
            .iter()
            .map(|w| {
                w.fires.len() as u64
                    + w.ext.as_ref().map(|e| e.load(Ordering::SeqCst) as u64).unwrap_or(0)
            })
            .sum()
    }
    pub fn is_never(&self) -> bool {
        matches!(self.last_answer(), Some(Answer::Pend(PendKind::Never)))
    }
    pub fn items(&self) -> Vec<(u32, Shape)> {
        self.polls
            .iter()
            .filter_map(|p| match &p.answer {
                Answer::Item(s) => Some((p.end, s.clone())),
                _ => None,
            })
            .collect()
    }
    pub fn ready(&self) -> Option<(u32, Shape)> {
        self.polls.iter().find_map(|p| match &p.answer {
            Answer::Ready(s) => Some((p.end, s.clone())),
            _ => None,
        })
    }
    pub fn ended_at(&self) -> Option<u32> {
        self.polls.iter().find_map(|p| match &p.answer {
            Answer::End => Some(p.end),
            _ => None,
        })
    }
}

pub struct TokRec {
    /// a value of a type without destructor: drops are not observable
    pub untracked: bool,
    /// a zero-sized value: it has no identity, so all of them share one shape and
    /// are accounted for as a pool
    pub zst: bool,
    /// the child that produced it; None for harness-side composites
    pub producer: Option<NodeId>,
    pub drops: u32,
    pub born: u32,
    pub kind: TokKind,
}

#[derive(Clone, Copy, Debug, PartialEq, Eq, Hash, PartialOrd, Ord)]
pub enum Oracle {
    /// no lost wake-up (C01)
    L,
    /// progress at quiescence (C01)
    P,
    /// a waker invocation panicked (C01)
    WakerPanic,
    /// exactly-once ownership of children (C02)
    D,
    /// exactly-once ownership of produced values (C02)
    DV,
    /// poll discipline (C03)
    Q,
    /// selectivity (C16)
    S,
    /// concurrent evaluation (C20)
    Conc,
    /// functional oracle of a family (C04..C10, C19)
    Func(Family),
    /// merge fairness (C17)
    Fair,
    /// group model (C11, C12)
    Group(Family),
    /// concurrent streams
    Co13,
    Co14,
    Co15,
    /// unexpected panic out of the code under test
    Panic(Family),
}

impl Oracle {
    pub fn property(self) -> &'static str {
        match self {
            Oracle::L | Oracle::P | Oracle::WakerPanic => "C01",
            Oracle::D | Oracle::DV => "C02",
            Oracle::Q => "C03",
            Oracle::S => "C16",
            Oracle::Conc => "C20",
            Oracle::Fair => "C17",
            Oracle::Func(f) | Oracle::Panic(f) => match f {
                Family::Join => "C04",
                Family::TryJoin => "C05",
                Family::Race => "C06",
                Family::RaceOk => "C07",
                Family::Merge => "C08",
                Family::Zip => "C09",
                Family::Chain => "C10",
                Family::FutGroup => "C11",
                Family::StrGroup => "C12",
                Family::WaitF | Family::WaitS => "C19",
                Family::Co => "C13",
            },
            Oracle::Group(Family::FutGroup) => "C11",
            Oracle::Group(_) => "C12",
            Oracle::Co13 => "C13",
            Oracle::Co14 => "C14",
            Oracle::Co15 => "C15",
        }
    }
}

#[derive(Clone, Debug)]
pub struct Violation {
    pub oracle: Oracle,
    pub msg: String,
    /// ownership violations: family of the combinator that owned the child /
    /// the child that produced the value
    pub fam: Option<Family>,
    /// harness clock at which the violation was recorded
    pub at: u32,
}

/// The task waker the harness executor hands to the top-level combinator.
/// Waking it only sets a flag: safe from any thread, can never re-enter.
pub struct PFlag {
    pub id: u32,
    pub woken: AtomicBool,
    pub count: AtomicU32,
}

impl Wake for PFlag {
    fn wake(self: Arc<Self>) {
        self.woken.store(true, Ordering::SeqCst);
        self.count.fetch_add(1, Ordering::SeqCst);
    }
    fn wake_by_ref(self: &Arc<Self>) {
        self.woken.store(true, Ordering::SeqCst);
        self.count.fetch_add(1, Ordering::SeqCst);
    }
}

/// Wraps the waker an inner (probed) combinator is polled with, counting
/// invocations, then forwarding.
pub struct ProbeWaker {
    pub inner: Waker,
    pub fired: Arc<AtomicU32>,
}

impl Wake for ProbeWaker {
    fn wake(self: Arc<Self>) {
        self.fired.fetch_add(1, Ordering::SeqCst);
        self.inner.wake_by_ref();
    }
    fn wake_by_ref(self: &Arc<Self>) {
        self.fired.fetch_add(1, Ordering::SeqCst);
        self.inner.wake_by_ref();
    }
}

/// Payload of injected panics.
pub struct Injected;

#[derive(Default)]
pub struct World {
    pub clock: u32,
    pub epoch: u32,
    pub in_top_poll: bool,
    pub std_cfg: bool,
    pub nodes: Vec<NodeRec>,
    pub toks: Vec<TokRec>,
    pub viol: Vec<Violation>,
    pub top: Option<NodeId>,
    pub cur_parent: Option<Arc<PFlag>>,
    pub parent_seq: u32,
    pub trace_on: bool,
    pub trace: Vec<String>,
    pub unknown_tok_drops: u32,
    /// runaway guard: child polls inside the current top-level poll
    pub polls_in_top: u32,
    /// leaves in creation order (for WakeSib targets)
    pub leaves: Vec<NodeId>,
    /// the groups driver judges group nodes with its own model
    pub group_model: bool,
    /// the caller caught an injected panic and went on polling the combinator:
    /// clock of that panic (from then on only ownership is judged)
    pub post_panic: Option<u32>,
    /// zero-sized values that are alive (handles of the tokens behind them)
    pub zst_pool: Vec<u32>,
    /// co-stream bookkeeping lives here too (see costream.rs)
    pub co: crate::costream::CoLog,
}

thread_local! {
    static W: RefCell<World> = RefCell::new(World::default());
}

pub fn with<R>(f: impl FnOnce(&mut World) -> R) -> R {
    W.with(|w| f(&mut w.borrow_mut()))
}

pub fn try_with<R>(f: impl FnOnce(&mut World) -> R) -> Option<R> {
    W.try_with(|w| w.try_borrow_mut().ok().map(|mut g| f(&mut g)))
        .ok()
        .flatten()
}

pub fn reset(std_cfg: bool, trace_on: bool) {
    // take the old world out first so that drops of stale wakers etc. happen
    // outside the borrow
    let old = W.with(|w| std::mem::take(&mut *w.borrow_mut()));
    drop(old);
    with(|w| {
        w.std_cfg = std_cfg;
        w.trace_on = trace_on;
    });
}

pub fn take_world() -> World {
    W.with(|w| std::mem::take(&mut *w.borrow_mut()))
}

pub fn tok_dropped(id: u32) {
    let _ = try_with(|w| w.tok_dropped(id));
}

pub fn new_composite(kind: TokKind) -> Val {
    with(|w| {
        let id = crate::val::handle_of(w.toks.len());
        let born = w.tick();
        w.toks.push(TokRec {
            untracked: false,
            zst: false,
            producer: None,
            drops: 0,
            born,
            kind,
        });
        Val { id }
    })
}

/// the one shape all zero-sized values share
pub const ZST_SHAPE: u32 = 0xFFFF_FF00;

/// A value is turned into a zero-sized one: it loses its identity.
pub fn mark_zst(id: u32) {
    with(|w| {
        let idx = crate::val::index_of(id);
        let Some(t) = w.toks.get_mut(idx) else { return };
        t.zst = true;
        let producer = t.producer;
        w.zst_pool.push(id);
        // the producing child's recorded answer must show the same shape
        fn patch(s: &mut Shape, id: u32) {
            match s {
                Shape::T(t) if *t == id => *t = ZST_SHAPE,
                Shape::L(v) => v.iter_mut().for_each(|x| patch(x, id)),
                Shape::Ok(x) | Shape::Err(x) | Shape::P(_, x) => patch(x, id),
                _ => {}
            }
        }
        if let Some(n) = producer {
            if let Some(p) = w.nodes[n].polls.last_mut() {
                match &mut p.answer {
                    Answer::Ready(s) | Answer::Item(s) => patch(s, id),
                    _ => {}
                }
            }
        }
    })
}

/// A zero-sized value was dropped: any one of the live ones.
pub fn zst_dropped() {
    let _ = try_with(|w| match w.zst_pool.pop() {
        Some(id) => w.tok_dropped(id),
        None => {
            w.unknown_tok_drops += 1;
            w.violate(Oracle::DV, "a zero-sized value was dropped although every one that a child produced had already been dropped or returned (dropped twice, or invented)".into());
        }
    });
}

/// A zero-sized value came back from the combinator: adopt one of the live ones.
pub fn zst_adopt() -> Val {
    with(|w| match w.zst_pool.pop() {
        Some(id) => Val { id },
        None => {
            w.violate(Oracle::DV, "the combinator returned a zero-sized value although every one that a child produced had already been dropped or returned (invented, or returned twice)".into());
            let id = crate::val::handle_of(w.toks.len());
            let born = w.tick();
            w.toks.push(TokRec { untracked: false, zst: false, producer: None, drops: 0, born, kind: TokKind::Plain });
            Val { id }
        }
    })
}

pub fn shape_of(id: u32) -> Shape {
    with(|w| w.shape_of(id, 0))
}

impl World {
    pub fn shape_of(&self, id: u32, depth: usize) -> Shape {
        match self.toks.get(crate::val::index_of(id)) {
            None => Shape::Unknown(id),
            Some(_) if depth > 14 => Shape::Unknown(id),
            Some(t) if t.zst => Shape::T(ZST_SHAPE),
            Some(t) => match &t.kind {
                TokKind::Plain => Shape::T(id),
                TokKind::List(v) => Shape::L(v.iter().map(|x| self.shape_of(*x, depth + 1)).collect()),
                TokKind::Res(true, x) => Shape::Ok(Box::new(self.shape_of(*x, depth + 1))),
                TokKind::Res(false, x) => Shape::Err(Box::new(self.shape_of(*x, depth + 1))),
                TokKind::Pair(i, x) => Shape::P(*i, Box::new(self.shape_of(*x, depth + 1))),
            },
        }
    }

    pub fn tok_dropped(&mut self, id: u32) {
        let mut stack = vec![id];
        let mut guard = 0;
        while let Some(id) = stack.pop() {
            guard += 1;
            if guard > 10_000 {
                break;
            }
            if let Some(t) = self.toks.get_mut(crate::val::index_of(id)) {
                t.drops += 1;
                if t.drops > 1 && t.untracked {
                    continue;
                }
                if t.drops > 1 {
                    let m = format!("value t{} dropped {} times", crate::val::index_of(id), t.drops);
                    let f = self.tok_family(id);
                    self.violate_f(Oracle::DV, f, m);
                    continue;
                }
                match &t.kind {
                    TokKind::Plain => {}
                    TokKind::List(v) => stack.extend(v.iter().cloned()),
                    TokKind::Res(_, x) | TokKind::Pair(_, x) => stack.push(*x),
                }
                if self.trace_on {
                    self.trace.push(format!("      drop t{}", crate::val::index_of(id)));
                }
            } else {
                self.unknown_tok_drops += 1;
                let f = self.tok_family(id);
                self.violate_f(
                    Oracle::DV,
                    f,
                    format!(
                        "a value that no child produced was dropped (handle {:#x}): an output slot that does not hold a child's value was read",
                        id
                    ),
                );
            }
        }
    }

    pub fn tick(&mut self) -> u32 {
        self.clock += 1;
        self.clock
    }

    pub fn violate(&mut self, oracle: Oracle, msg: String) {
        self.violate_f(oracle, None, msg)
    }

    pub fn violate_f(&mut self, oracle: Oracle, fam: Option<Family>, msg: String) {
        if self.viol.len() < 64 {
            if self.trace_on {
                self.trace.push(format!("  !! {:?}: {}", oracle, msg));
            }
            let at = self.clock;
            self.viol.push(Violation { oracle, msg, fam, at });
        }
    }

    /// A child signalled (`node`'s current waker was invoked) but the task was
    /// not woken: which combinator on the path swallowed the wake-up? Walk up
    /// while the enclosing combinator forwarded it (the waker *it* was polled
    /// with was invoked too).
    pub fn lost_wake_culprit(&self, node: NodeId) -> Option<NodeId> {
        let mut cur = node;
        loop {
            let p = self.nodes[cur].parent?;
            if Some(p) == self.top {
                return Some(p);
            }
            let forwarded = self.nodes[p]
                .wakers
                .last()
                .and_then(|w| w.ext.as_ref())
                .map(|e| e.load(Ordering::SeqCst) > 0)
                .unwrap_or(false);
            if !forwarded {
                return Some(p);
            }
            cur = p;
        }
    }

    /// family of the combinator that owns node `id`
    pub fn owner_family(&self, id: NodeId) -> Option<Family> {
        self.nodes.get(id).and_then(|n| n.parent).and_then(|p| self.nodes[p].family())
    }

    /// family of the combinator whose child produced token `t` (the top-level
    /// combinator's family when the token is unknown or a harness composite)
    pub fn tok_family(&self, t: u32) -> Option<Family> {
        let by_producer = self.toks.get(crate::val::index_of(t)).and_then(|r| r.producer).and_then(|n| self.owner_family(n));
        by_producer.or_else(|| {
            // unknown handle / harness composite: attributable only when the
            // case has a single combinator
            let combs = self.nodes.iter().filter(|n| !n.is_leaf()).count();
            if combs == 1 {
                self.top.and_then(|t| self.nodes[t].family())
            } else {
                None
            }
        })
    }

    pub fn new_node(&mut self, parent: Option<NodeId>, index: usize, kind: NodeKind) -> NodeId {
        let id = self.nodes.len();
        let created_at = self.clock;
        if matches!(kind, NodeKind::Leaf { .. }) {
            self.leaves.push(id);
        }
        self.nodes.push(NodeRec {
            id,
            parent,
            index,
            kind,
            polls: Vec::new(),
            wakers: Vec::new(),
            finished_at: None,
            panicked: false,
            drops: 0,
            dropped_at: None,
            removed_at: None,
            key: None,
            fire_snapshot: 0,
            untracked_drop: false,
            fire_count: 0,
            drop_begin: None,
            item: None,
            created_at,
        });
        if let Some(p) = parent {
            if let NodeKind::Comb { children, .. } = &mut self.nodes[p].kind {
                children.push(id);
            }
        }
        id
    }

    pub fn new_tok(&mut self, producer: NodeId) -> Val {
        let id = crate::val::handle_of(self.toks.len());
        let born = self.tick();
        self.toks.push(TokRec {
            untracked: false,
            zst: false,
            producer: Some(producer),
            drops: 0,
            born,
            kind: TokKind::Plain,
        });
        Val { id }
    }

    /// every enclosing combinator is unfinished, undropped, not removed
    pub fn ancestors_alive(&self, id: NodeId) -> bool {
        let mut cur = self.nodes[id].parent;
        while let Some(p) = cur {
            let n = &self.nodes[p];
            if n.finished_at.is_some() || n.dropped_at.is_some() || n.removed_at.is_some() || n.panicked {
                return false;
            }
            cur = n.parent;
        }
        true
    }

    pub fn live(&self, id: NodeId) -> bool {
        let n = &self.nodes[id];
        n.finished_at.is_none()
            && n.dropped_at.is_none()
            && n.removed_at.is_none()
            && !n.panicked
            && self.ancestors_alive(id)
    }

    /// some enclosing zip deliberately holds this subtree back: its item for
    /// the current row is already buffered
    pub fn held_back(&self, id: NodeId) -> bool {
        let mut cur = id;
        while let Some(p) = self.nodes[cur].parent {
            if self.nodes[p].family() == Some(Family::Zip) {
                let rows = self.nodes[p].polls.iter().filter(|x| matches!(x.answer, Answer::Item(_))).count();
                if self.nodes[cur].items().len() == rows + 1 {
                    return true;
                }
            }
            cur = p;
        }
        false
    }

    pub fn path(&self, id: NodeId) -> String {
        let n = &self.nodes[id];
        let me = match &n.kind {
            NodeKind::Leaf { .. } => format!("leaf#{}", id),
            NodeKind::Comb { family, container, .. } => format!("{:?}/{:?}#{}", family, container, id),
        };
        match n.parent {
            Some(p) => format!("{}.{}[{}]", self.path(p), me, n.index),
            None => me,
        }
    }

    /// Checks shared by leaf polls and probe polls (Q and S oracles).
    fn poll_discipline(&mut self, id: NodeId) {
        if !self.in_top_poll {
            let m = format!("{} polled while no poll of the top-level combinator is in progress", self.path(id));
            let f = self.owner_family(id);
            self.violate_f(Oracle::Q, f, m);
        }
        if self.nodes[id].finished_at.is_some() {
            let m = format!("{} polled again after it completed", self.path(id));
            let f = self.owner_family(id);
            self.violate_f(Oracle::Q, f, m);
        }
        if self.nodes[id].removed_at.is_some() {
            let m = format!("{} polled after it was removed from its group", self.path(id));
            let f = self.owner_family(id);
            self.violate_f(Oracle::Q, f, m);
        }
        if self.nodes[id].dropped_at.is_some() {
            let m = format!("{} polled after it was dropped", self.path(id));
            let f = self.owner_family(id);
            self.violate_f(Oracle::D, f, m);
        }
        {
            let mut cur = self.nodes[id].parent;
            while let Some(p) = cur {
                if self.nodes[p].finished_at.is_some() {
                    let m = format!(
                        "{} polled after its owner {} had produced its final result",
                        self.path(id),
                        self.path(p)
                    );
                    // whoever polled the finished owner (or, if the owner polls its
                    // children on its own after finishing, the owner itself)
                    let direct = self.nodes[id].parent == Some(p);
                    let f = if direct { self.nodes[p].family() } else { self.owner_family(id) };
                    self.violate_f(Oracle::Q, f, m);
                    break;
                }
                cur = self.nodes[p].parent;
            }
        }
        // selectivity: re-poll of a pending child only after one of its wakers fired
        if self.std_cfg {
            if let Some(p) = self.nodes[id].parent {
                let sel = self.nodes[p].family().map(|f| f.selective()).unwrap_or(false);
                if sel {
                    let n = &self.nodes[id];
                    if let Some(last) = n.polls.last() {
                        if last.answer.is_pend() {
                            let mut fires = n.total_fires();
                            // groups: an earlier occupant of the same key counts too
                            if let Some(k) = n.key {
                                for &sib in self.nodes[p].children() {
                                    if sib != id && self.nodes[sib].key == Some(k) {
                                        fires += self.nodes[sib].total_fires();
                                    }
                                }
                            }
                            // group members added through extend/from_iter have
                            // unobservable keys: an earlier occupant of this slot
                            // cannot be identified, so S is not judged there
                            // (a member added *after* this one cannot have been an
                            // earlier occupant of its key, so only older unknowns matter)
                            let created = n.created_at;
                            let unknown_keys = self.group_model
                                && (n.key.is_none()
                                    || self.nodes[p].children().iter().any(|&c| self.nodes[c].key.is_none() && self.nodes[c].created_at < created));
                            if fires == n.fire_snapshot && !unknown_keys {
                                let m = format!(
                                    "{} re-polled although its last answer was Pending and none of its wakers fired since",
                                    self.path(id)
                                );
                                let f = self.owner_family(id);
                                self.violate_f(Oracle::S, f, m);
                            }
                        }
                    }
                }
            }
        }
        self.polls_in_top += 1;
        // fires from here on (including wakes from inside this very poll)
        // justify the next poll of this child
        self.snapshot_fires(id);
    }

    fn snapshot_fires(&mut self, id: NodeId) {
        let mut fires = self.nodes[id].total_fires();
        if let (Some(k), Some(p)) = (self.nodes[id].key, self.nodes[id].parent) {
            for &sib in self.nodes[p].children() {
                if sib != id && self.nodes[sib].key == Some(k) {
                    fires += self.nodes[sib].total_fires();
                }
            }
        }
        self.nodes[id].fire_snapshot = fires;
    }
}

/// `size_hint` of a scripted stream: exact when the leaf was told to give a
/// hint and its remaining script is finite, `(0, None)` otherwise.
pub fn leaf_size_hint(id: NodeId) -> (usize, Option<usize>) {
    try_with(|w| match w.nodes.get(id).map(|n| &n.kind) {
        Some(NodeKind::Leaf { script, pos, always, hint, .. }) => {
            if *always && *hint == 4 {
                return (usize::MAX, Some(usize::MAX));
            }
            if *always || *hint == 0 {
                return (0, None);
            }
            let rest = &script[(*pos).min(script.len())..];
            if rest.iter().any(|s| matches!(s, Step::Never | Step::Panic)) {
                return (0, None);
            }
            let mut n = 0;
            for s in rest {
                match s {
                    Step::Yield(_) | Step::WakeYield => n += 1,
                    Step::End => break,
                    _ => {}
                }
            }
            if *hint == 3 {
                // honest and useless: "at most usize::MAX" is a valid upper bound of
                // any stream (and the exact one of a long range)
                return (n / 2, Some(if n % 2 == 0 { usize::MAX } else { isize::MAX as usize }));
            }
            if *hint == 2 {
                // honest but inexact, as after a `filter`: the lower bound under-reports,
                // the upper bound leaves room
                (n / 2, Some(n + 1 + n % 3))
            } else {
                (n, Some(n))
            }
        }
        _ => (0, None),
    })
    .unwrap_or((0, None))
}

pub const RUNAWAY: u32 = 20_000;

/// Panic payload used to abort a runaway case (child polled > RUNAWAY times in
/// one top-level poll). The case is counted inconclusive.
pub struct Runaway;

pub enum LeafOut {
    Pending,
    Yield(Val, bool),
    End,
}

enum Act {
    WakeYield,
    Pend,
    SelfWake,
    WakeSib(NodeId),
    Yield(bool),
    End,
    Panic,
    Runaway,
}

pub fn leaf_poll(id: NodeId, cx: &mut Context<'_>) -> LeafOut {
    let waker = cx.waker().clone();
    let act = with(|w| {
        w.poll_discipline(id);
        if w.polls_in_top > RUNAWAY {
            return Act::Runaway;
        }
        let begin = w.tick();
        let epoch = w.epoch;
        let nleaves = w.leaves.len();
        let finished = w.nodes[id].finished_at.is_some();
        let n = &mut w.nodes[id];
        let (step, flavor) = match &mut n.kind {
            NodeKind::Leaf { script, pos, always, flavor, .. } => {
                if *always {
                    (Step::Yield(true), *flavor)
                } else if finished {
                    // contract already broken by the caller (recorded above);
                    // answer something harmless
                    (if *flavor == Flavor::S { Step::End } else { Step::Later }, *flavor)
                } else if *pos < script.len() {
                    let s = script[*pos];
                    if s != Step::Never {
                        *pos += 1;
                    }
                    (s, *flavor)
                } else {
                    (Step::End, *flavor)
                }
            }
            _ => unreachable!(),
        };
        n.wakers.push(WakerRec {
            waker: Some(waker),
            fires: Vec::new(),
            ext: None,
            sent: false,
        });
        let (answer, act) = match step {
            Step::Later => (Answer::Pend(PendKind::Later), Act::Pend),
            Step::SelfWake => (Answer::Pend(PendKind::SelfWake), Act::SelfWake),
            Step::WakeSib(k) => {
                let t = w.leaves[(k as usize) % nleaves.max(1)];
                (Answer::Pend(PendKind::WakeSib), Act::WakeSib(t))
            }
            Step::Never => (Answer::Pend(PendKind::Never), Act::Pend),
            Step::Yield(ok) => (Answer::Pend(PendKind::Comb), Act::Yield(ok)), // fixed below
            Step::WakeYield => (Answer::Pend(PendKind::Comb), Act::WakeYield), // fixed below
            Step::End => {
                if flavor == Flavor::S {
                    (Answer::End, Act::End)
                } else {
                    (Answer::Pend(PendKind::Comb), Act::Yield(true))
                }
            }
            Step::Panic => (Answer::Panic, Act::Panic),
        };
        let n = &mut w.nodes[id];
        n.polls.push(PollRec {
            begin,
            end: begin,
            epoch,
            answer,
        });
        match act {
            Act::End => n.finished_at = Some(begin),
            Act::Panic => n.panicked = true,
            Act::SelfWake | Act::WakeYield => {
                n.wakers.last_mut().unwrap().fires.push(begin);
                n.fire_count += 1;
            }
            _ => {}
        }
        if w.trace_on {
            let p = w.path(id);
            let a = w.nodes[id].polls.last().unwrap().answer.show();
            if !matches!(act, Act::Yield(_) | Act::WakeYield) {
                w.trace.push(format!("    poll {} -> {}", p, a));
            }
        }
        act
    });
    match act {
        Act::Pend => LeafOut::Pending,
        Act::SelfWake => {
            cx.waker().wake_by_ref();
            LeafOut::Pending
        }
        Act::WakeSib(t) => {
            fire(t, 0, false);
            LeafOut::Pending
        }
        Act::Yield(_) | Act::WakeYield => {
            let ok = !matches!(act, Act::Yield(false));
            if matches!(act, Act::WakeYield) {
                cx.waker().wake_by_ref();
            }
            let tok = with(|w| {
                let tok = w.new_tok(id);
                let now = w.clock;
                let n = &mut w.nodes[id];
                let flavor = match &n.kind {
                    NodeKind::Leaf { flavor, .. } => *flavor,
                    _ => unreachable!(),
                };
                let shape = Shape::T(tok.id);
                let ans = match flavor {
                    Flavor::F => Answer::Ready(shape),
                    Flavor::R => Answer::Ready(if ok {
                        Shape::Ok(Box::new(shape))
                    } else {
                        Shape::Err(Box::new(shape))
                    }),
                    Flavor::S => Answer::Item(shape),
                };
                let pr = n.polls.last_mut().unwrap();
                pr.answer = ans;
                pr.end = now;
                if flavor != Flavor::S {
                    n.finished_at = Some(now);
                }
                if w.trace_on {
                    let p = w.path(id);
                    let a = w.nodes[id].polls.last().unwrap().answer.show();
                    w.trace.push(format!("    poll {} -> {}", p, a));
                }
                tok
            });
            LeafOut::Yield(tok, ok)
        }
        Act::End => LeafOut::End,
        Act::Panic => std::panic::panic_any(Injected),
        Act::Runaway => std::panic::panic_any(Runaway),
    }
}

#[derive(Clone, Copy, Default)]
pub struct FireInfo {
    pub had: bool,
    /// this was the first invocation of the waker of the target's most recent poll
    pub first_on_current: bool,
}

fn pick_waker(w: &mut World, target: NodeId, which: usize, note: &str) -> (Option<Waker>, FireInfo) {
    let now = w.tick();
    let n = &mut w.nodes[target];
    let len = n.wakers.len();
    if len == 0 {
        return (None, FireInfo::default());
    }
    let idx = len - 1 - which.min(len - 1);
    n.fire_count += 1;
    let rec = &mut n.wakers[idx];
    rec.fires.push(now);
    let info = FireInfo {
        had: true,
        first_on_current: idx == len - 1 && rec.fires.len() == 1,
    };
    let wk = rec.waker.clone();
    if w.trace_on {
        let p = w.path(target);
        w.trace.push(format!(
            "  fire waker of {} ({}){}",
            p,
            if idx == len - 1 { "current".to_string() } else { format!("stale -{}", len - 1 - idx) },
            note
        ));
    }
    (wk, info)
}

/// Invoke a waker that was handed to `target`: `which == 0` is the waker of
/// its most recent poll, `k > 0` the k-th older (stale) one.
pub fn fire(target: NodeId, which: usize, twice: bool) -> FireInfo {
    let (wk, info) = with(|w| pick_waker(w, target, which, ""));
    let Some(wk) = wk else { return info };
    let r = std::panic::catch_unwind(std::panic::AssertUnwindSafe(|| {
        wk.wake_by_ref();
        if twice {
            wk.wake_by_ref();
        }
    }));
    if let Err(e) = r {
        if e.is::<Runaway>() {
            std::panic::resume_unwind(e);
        }
        let msg = panic_msg(&e);
        with(|w| {
            let p = w.path(target);
            let f = w.owner_family(target);
            w.violate_f(Oracle::WakerPanic, f, format!("invoking a waker handed to {} panicked: {}", p, msg))
        });
    }
    info
}

pub fn fire_from_thread(target: NodeId, which: usize) -> FireInfo {
    let (wk, info) = with(|w| pick_waker(w, target, which, " from a helper thread"));
    let Some(wk) = wk else { return info };
    let h = std::thread::spawn(move || {
        std::panic::catch_unwind(std::panic::AssertUnwindSafe(|| wk.wake_by_ref())).is_ok()
    });
    let ok = h.join().unwrap_or(false);
    if !ok {
        with(|w| {
            let p = w.path(target);
            let f = w.owner_family(target);
            w.violate_f(Oracle::WakerPanic, f, format!("invoking a waker handed to {} from another thread panicked", p))
        });
    }
    info
}

pub fn panic_msg(e: &Box<dyn std::any::Any + Send>) -> String {
    if let Some(s) = e.downcast_ref::<&str>() {
        s.to_string()
    } else if let Some(s) = e.downcast_ref::<String>() {
        s.clone()
    } else if e.is::<Injected>() {
        "<injected>".into()
    } else {
        "<non-string payload>".into()
    }
}

/// The drop of a combinator node is about to begin (its children go first).
pub fn node_drop_begin(id: NodeId) {
    let _ = try_with(|w| {
        let now = w.tick();
        if let Some(n) = w.nodes.get_mut(id) {
            if n.drop_begin.is_none() {
                n.drop_begin = Some(now);
            }
        }
    });
}

pub fn node_dropped(id: NodeId) {
    let wake: Option<Waker> = try_with(|w| {
        let now = w.tick();
        if id >= w.nodes.len() {
            w.unknown_tok_drops += 1;
            w.violate(Oracle::D, format!("an unknown child (id {:#x}) was dropped", id));
            return None;
        }
        let n = &mut w.nodes[id];
        n.drops += 1;
        if n.drops > 1 {
            let m = format!("{} dropped {} times", w.path(id), w.nodes[id].drops);
            let f = w.owner_family(id);
            w.violate_f(Oracle::D, f, m);
        } else {
            n.dropped_at = Some(now);
        }
        if w.trace_on {
            let p = w.path(id);
            w.trace.push(format!("      drop {}", p));
        }
        // a combinator node: every child it still owned must be gone by now
        let kids: Vec<NodeId> = w.nodes[id].children().to_vec();
        for k in kids {
            if w.nodes[k].drops == 0 && !w.nodes[k].untracked_drop {
                let m = format!(
                    "{} outlives its owner {}: not dropped when the owner's drop returned",
                    w.path(k),
                    w.path(id)
                );
                let f = w.nodes[id].family();
                w.violate_f(Oracle::D, f, m);
            }
        }
        // wake-on-drop children: hand back the waker of the most recent poll
        let first_drop = w.nodes[id].drops == 1;
        let dropwake = matches!(&w.nodes[id].kind, NodeKind::Leaf { dropwake: true, .. });
        if first_drop && dropwake {
            let now = w.tick();
            let n = &mut w.nodes[id];
            if let Some(rec) = n.wakers.last_mut() {
                rec.fires.push(now);
                n.fire_count += 1;
                let wk = rec.waker.clone();
                if w.trace_on {
                    let p = w.path(id);
                    w.trace.push(format!("      {} invokes its waker from its destructor", p));
                }
                return wk;
            }
        }
        None
    })
    .flatten();
    if let Some(wk) = wake {
        let r = std::panic::catch_unwind(std::panic::AssertUnwindSafe(|| wk.wake_by_ref()));
        if let Err(e) = r {
            let msg = panic_msg(&e);
            with(|w| {
                let p = w.path(id);
                let f = w.owner_family(id);
                w.violate_f(Oracle::WakerPanic, f, format!("invoking, from the child's destructor, the waker handed to {} panicked: {}", p, msg))
            });
        }
    }
}

/// Begin a poll of a combinator node (probe or top). Returns the waker to
/// poll the inner combinator with.
pub fn comb_poll_begin(id: NodeId, cx_waker: &Waker, top: bool) -> Waker {
    with(|w| {
        if !top {
            w.poll_discipline(id);
        }
        let begin = w.tick();
        let fired = Arc::new(AtomicU32::new(0));
        let wrapped: Waker = if top {
            cx_waker.clone()
        } else {
            Arc::new(ProbeWaker {
                inner: cx_waker.clone(),
                fired: fired.clone(),
            })
            .into()
        };
        let epoch = w.epoch;
        let n = &mut w.nodes[id];
        n.wakers.push(WakerRec {
            waker: None,
            fires: Vec::new(),
            ext: if top { None } else { Some(fired) },
            sent: false,
        });
        n.polls.push(PollRec {
            begin,
            end: begin,
            epoch,
            answer: Answer::Panic,
        });
        if w.trace_on {
            let p = w.path(id);
            w.trace.push(format!("   >poll {}", p));
        }
        wrapped
    })
}

pub fn comb_poll_end(id: NodeId, answer: Answer) {
    with(|w| {
        let now = w.tick();
        if w.trace_on {
            let p = w.path(id);
            w.trace.push(format!("   <poll {} -> {}", p, answer.show()));
        }
        let group_top = w.group_model && w.top == Some(id);
        let n = &mut w.nodes[id];
        let mut fin = matches!(answer, Answer::Ready(_) | Answer::End);
        if group_top {
            // None is not final for a group: it can be refilled
            fin = false;
        }
        let pr = n.polls.last_mut().unwrap();
        pr.end = now;
        pr.answer = answer;
        if fin {
            n.finished_at = Some(now);
        }
    })
}

/// The inner poll unwound.
pub fn comb_poll_panicked(id: NodeId) {
    with(|w| {
        let now = w.tick();
        let n = &mut w.nodes[id];
        n.panicked = true;
        if let Some(pr) = n.polls.last_mut() {
            pr.end = now;
            pr.answer = Answer::Panic;
        }
    })
}
