//! Harness library: scripted children, wake-only executor, trace oracles and
//! the engines that decide the properties. `main.rs` is the proptest-driven
//! command line; `/verif/fuzz` drives the same engines from libFuzzer.

pub mod construct;
#[cfg(feature = "with-co")]
pub mod costream;
#[cfg(not(feature = "with-co"))]
pub mod costream {
    //! the concurrent-stream engine lives in the `with-co` binary
    #[derive(Default)]
    pub struct CoLog {}
}
pub mod crash;
pub mod driver;
pub mod engine_comb;
pub mod exec;
pub mod gen;
#[cfg(feature = "has-alloc")]
pub mod groups;
#[cfg(not(feature = "has-alloc"))]
pub mod groups {
    //! no groups without an allocator: only the interface the executor names
    use crate::val::Val;
    use std::task::{Context, Poll};
    pub trait GroupDyn {
        fn poll_next(&mut self, cx: &mut Context<'_>) -> Poll<Option<Val>>;
        fn after_poll(&mut self);
    }
}
pub mod nodes;
pub mod oracle;
pub mod props;
pub mod regress;
pub mod spec;
pub mod val;
pub mod world;


use driver::Engine;
use props::Tier;
use std::sync::Arc;

pub fn engine_for(prop: &str, tier: Tier) -> Option<(Arc<dyn Engine>, &'static str, u64, usize, &'static str)> {
    // the concurrent-stream binary: C13-C15 and the co share of C02 / C03
    #[cfg(feature = "with-co")]
    {
        if let Some(p) = props::co_prop(prop) {
            let e = costream::CoEngine { prop: p.id, profile: (p.profile)(tier) };
            return Some((Arc::new(e), p.rule, (p.cases)(tier), (p.max_len)(tier), p.id));
        }
        if prop == "C02" || prop == "C03" {
            let p = props::comb_prop(prop).unwrap();
            let profile = if p.id == "C02" { props::cp02(tier) } else { props::cp03(tier) };
            let e = costream::CoEngine { prop: p.id, profile };
            return Some((Arc::new(e), p.rule, (p.cases)(tier) / 6, 420, p.id));
        }
        return None;
    }
    #[cfg(not(feature = "with-co"))]
    if let Some(p) = props::comb_prop(prop) {
        let e = engine_comb::CombEngine::new(p, tier);
        // the cross-cutting properties quantify over group operation histories
        // (members inserted at any time, re-used slots, growth) as well: a
        // share of their cases are histories from the group engine, judged by
        // the same shared oracles (the group model itself belongs to C11/C12)
        #[cfg(feature = "has-alloc")]
        if matches!(p.id, "C01" | "C02" | "C03" | "C16" | "C20") {
            let share = if matches!(p.id, "C16" | "C20") { 14 } else { 8 };
            let fg = groups::GroupEngine { gp: props::group_share(p.id, world::Family::FutGroup, tier), fold_shared: false };
            let sg = groups::GroupEngine { gp: props::group_share(p.id, world::Family::StrGroup, tier), fold_shared: false };
            let m = driver::MultiEngine { parts: vec![(100 - 2 * share, Arc::new(e)), (share, Arc::new(fg)), (share, Arc::new(sg))], name: "comb+group" };
            let m: Arc<dyn Engine> = if p.id == "C20" { Arc::new(driver::C20Fold(Arc::new(m))) } else { Arc::new(m) };
            return Some((m, p.rule, (p.cases)(tier), (p.max_len)(tier).max(700), p.id));
        }
        if p.id == "C20" {
            return Some((Arc::new(driver::C20Fold(Arc::new(e))), p.rule, (p.cases)(tier), (p.max_len)(tier), p.id));
        }
        return Some((Arc::new(e), p.rule, (p.cases)(tier), (p.max_len)(tier), p.id));
    }
    #[cfg(all(feature = "has-alloc", not(feature = "with-co")))]
    if let Some(p) = props::group_prop(prop) {
        let e = groups::GroupEngine { gp: (p.profile)(tier), fold_shared: true };
        return Some((Arc::new(e), p.rule, (p.cases)(tier), (p.max_len)(tier), p.id));
    }
    #[cfg(not(feature = "with-co"))]
    return None;
}


/// The storm phase of a property: the same generators and oracles, but every
/// case runs in storm mode (wakers are invoked by helper threads, truly
/// concurrently with polls of the combinator / operations on the group). Only
/// the std configurations have shared readiness state that a wake-up from
/// another thread could race with; selectivity (C16) cannot be judged without
/// an order between wake-ups and polls, and the fairness runs (C17) have no
/// wake-ups to speak of.
#[cfg(all(feature = "cfg-std", not(feature = "with-co")))]
pub fn storm_engine_for(prop: &str, tier: Tier) -> Option<(Arc<dyn Engine>, u64, usize)> {
    let cases = props::storm_cases(tier);
    if let Some(p) = props::comb_prop(prop) {
        if matches!(p.id, "C16" | "C17") {
            return None;
        }
        let mut e = engine_comb::CombEngine::new(p, tier);
        e.profile.p_storm = 256;
        e.profile.big_vec = false;
        if matches!(p.id, "C01" | "C02" | "C03" | "C20") {
            let mut gf = props::group_share(p.id, world::Family::FutGroup, tier);
            let mut gs = props::group_share(p.id, world::Family::StrGroup, tier);
            gf.base.p_storm = 256;
            gs.base.p_storm = 256;
            let fg = groups::GroupEngine { gp: gf, fold_shared: false };
            let sg = groups::GroupEngine { gp: gs, fold_shared: false };
            let m = driver::MultiEngine { parts: vec![(70, Arc::new(e)), (15, Arc::new(fg)), (15, Arc::new(sg))], name: "comb+group (storm)" };
            let m: Arc<dyn Engine> = if p.id == "C20" { Arc::new(driver::C20Fold(Arc::new(m))) } else { Arc::new(m) };
            return Some((m, cases, 700));
        }
        return Some((Arc::new(e), cases, (p.max_len)(Tier::Quick)));
    }
    if let Some(p) = props::group_prop(prop) {
        let mut gp = (p.profile)(tier);
        gp.base.p_storm = 256;
        let e = groups::GroupEngine { gp, fold_shared: true };
        return Some((Arc::new(e), cases, (p.max_len)(Tier::Quick)));
    }
    None
}
#[cfg(not(all(feature = "cfg-std", not(feature = "with-co"))))]
pub fn storm_engine_for(_prop: &str, _tier: Tier) -> Option<(Arc<dyn Engine>, u64, usize)> {
    None
}
