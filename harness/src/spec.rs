//! The decoded (structured) form of a generated case.

use crate::world::{Container, Family, Step};

#[derive(Clone, Debug, PartialEq, Eq, Hash)]
pub struct LeafSpec {
    pub script: Vec<Step>,
    pub always: bool,
    /// streams: report an honest, exact `size_hint` (the default is `(0, None)`)
    /// 0 = none, 1 = exact, 2 = honest but inexact: (about half, Some(a few more)),
    /// 3 = honest with a useless upper bound: (about half, Some(usize::MAX))
    pub hint: u8,
    /// the child invokes the waker of its most recent poll from its destructor
    pub dropwake: bool,
}

#[derive(Clone, Debug, PartialEq, Eq, Hash)]
pub enum ChildSpec {
    Leaf(LeafSpec),
    Inner(CombSpec),
}

#[derive(Clone, Debug, PartialEq, Eq, Hash)]
pub struct CombSpec {
    pub family: Family,
    pub container: Container,
    pub children: Vec<ChildSpec>,
    /// the *type* dimension: 0 = children and values have destructors (the
    /// harness observes every drop); 1 = the child type has no drop glue
    /// (a `Copy` handle) while its values have; 2 = the children have
    /// destructors while the values they produce have none. Code that consults
    /// `mem::needs_drop` behaves differently for these.
    pub variant: u8,
}

#[derive(Clone, Copy, Debug, PartialEq, Eq, Hash)]
pub enum Action {
    /// poll the top-level combinator; `reuse` = hand it the same task waker
    /// as on the previous poll instead of a fresh one
    Poll { reuse: bool },
    /// invoke a waker handed to the `leaf`-th leaf (index scaled over the
    /// leaves that hold a waker); `which` = 0 newest, k = k-th older
    Fire {
        leaf: u8,
        which: u8,
        twice: bool,
        thread: bool,
    },
    /// drop the combinator now
    Drop,
    /// invoke the current waker of every live child that is pending (many
    /// wake-ups before the task gets to run again)
    FireAll,
}

#[derive(Clone, Debug, PartialEq, Eq, Hash)]
pub struct Case {
    pub root: CombSpec,
    pub schedule: Vec<Action>,
    /// order in which the fair drain fires outstanding wakers
    pub drain: Vec<u8>,
    /// skip the drain (end the case after the adversarial phase)
    pub no_drain: bool,
    /// C17 mode: number of polls to run
    pub fair_polls: u32,
    /// C03: polls of the combinator *after* it produced its final result
    /// (allowed to panic or answer anything, but not to poll a child)
    pub post_polls: u8,
    /// storm mode: no scripted fires; after every poll the current wakers of
    /// all pending children are handed to helper THREADS that invoke them
    /// while the task is already being polled again (truly concurrent wake-ups)
    pub storm: bool,
    /// if a child's poll panics, the combinator is dropped *by that unwinding*
    /// (it lives in the frame being unwound, as in `comb.await` inside an async
    /// block) instead of after the panic was caught
    pub unwind_drop: bool,
    /// the caller catches a panic of a child's poll and goes on polling the
    /// same combinator (only ownership is judged from then on)
    pub repoll_after_panic: bool,
}

impl CombSpec {
    pub fn leaves(&self) -> usize {
        self.children
            .iter()
            .map(|c| match c {
                ChildSpec::Leaf(_) => 1,
                ChildSpec::Inner(i) => i.leaves(),
            })
            .sum()
    }
    pub fn script_steps(&self) -> usize {
        self.children
            .iter()
            .map(|c| match c {
                ChildSpec::Leaf(l) => l.script.len() + 1,
                ChildSpec::Inner(i) => i.script_steps(),
            })
            .sum()
    }
    pub fn depth(&self) -> usize {
        1 + self
            .children
            .iter()
            .map(|c| match c {
                ChildSpec::Leaf(_) => 0,
                ChildSpec::Inner(i) => i.depth(),
            })
            .max()
            .unwrap_or(0)
    }
    pub fn show(&self) -> String {
        let kids: Vec<String> = self
            .children
            .iter()
            .map(|c| match c {
                ChildSpec::Leaf(l) => {
                    let s: Vec<String> = l
                        .script
                        .iter()
                        .map(|s| match s {
                            Step::Later => "P".into(),
                            Step::SelfWake => "Pself".into(),
                            Step::WakeSib(k) => format!("Psib{}", k),
                            Step::Never => "NEVER".into(),
                            Step::Yield(true) => "Y".into(),
                            Step::Yield(false) => "Yerr".into(),
                            Step::WakeYield => "Ywake".into(),
                            Step::End => "End".into(),
                            Step::Panic => "PANIC".into(),
                        })
                        .collect();
                    // run-length encode long scripts
                    let mut rle: Vec<String> = Vec::new();
                    let mut i = 0;
                    while i < s.len() {
                        let mut j = i;
                        while j < s.len() && s[j] == s[i] {
                            j += 1;
                        }
                        if j - i > 3 {
                            rle.push(format!("{}x{}", s[i], j - i));
                        } else {
                            for k in i..j {
                                rle.push(s[k].clone());
                            }
                        }
                        i = j;
                    }
                    let s = rle;
                    format!("<{}{}{}>", s.join(" "), if l.always { " always" } else { "" }, match l.hint { 1 => " exact-size_hint", 2 => " inexact-size_hint", 3 => " size_hint-with-huge-upper-bound", _ => "" }) + if l.dropwake { "+wake-on-drop" } else { "" }
                }
                ChildSpec::Inner(i) => i.show(),
            })
            .collect();
        format!(
            "{:?}/{:?}{}({})",
            self.family,
            self.container,
            match self.variant {
                1 => "[children without drop glue]",
                2 => "[values without drop glue]",
                3 => "[errors without drop glue]",
                5 => "[zero-sized values]",
                4 => "[heterogeneous element types: tracked, niche without destructor, plain, wide with destructor]",
                _ => "",
            },
            kids.join(", ")
        )
    }
}

impl Case {
    pub fn show(&self) -> String {
        let acts: Vec<String> = self
            .schedule
            .iter()
            .map(|a| match a {
                Action::Poll { reuse } => format!("Poll{}", if *reuse { "(same waker)" } else { "" }),
                Action::Fire { leaf, which, twice, thread } => format!(
                    "Fire(leaf~{},{}{}{})",
                    leaf,
                    if *which == 0 { "current".to_string() } else { format!("stale-{}", which) },
                    if *twice { ",x2" } else { "" },
                    if *thread { ",thread" } else { "" }
                ),
                Action::Drop => "Drop".into(),
                Action::FireAll => "FireAll".into(),
            })
            .collect();
        format!(
            "{} | schedule: [{}]{}{}",
            self.root.show(),
            acts.join(" "),
            if self.no_drain { " (no drain)" } else { " then fair drain" },
            if self.fair_polls > 0 { format!(" fair_polls={}", self.fair_polls) } else { String::new() }
        ) + if self.storm { " [storm: wakers fired concurrently from helper threads]" } else { "" } + if self.unwind_drop { " [a panic unwinds through the owner of the combinator]" } else if self.repoll_after_panic { " [the caller catches a panic and polls on]" } else { "" } + &(if self.post_polls > 0 { format!(" then {} poll(s) after the final result", self.post_polls) } else { String::new() })
    }
}
