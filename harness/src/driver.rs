//! The proptest driver: shards cases over worker threads, shrinks a failure,
//! writes the replay file, collects the evidence fragment, and watches for
//! hangs (a hang is exit 2, never a verdict).

use crate::world::Violation;
use proptest::strategy::Strategy;
use proptest::test_runner::{Config, RngAlgorithm, RngSeed, TestCaseError, TestError, TestRunner};
use std::collections::{BTreeMap, HashSet};
use std::hash::{Hash, Hasher};
use std::sync::atomic::{AtomicBool, AtomicU64, Ordering};
use std::sync::{Arc, Mutex};

/// set while the storm phase (wakers invoked by helper threads) is running:
/// hang and crash reports must name the storm engine, because the same bytes
/// decode to a different case there
pub static STORM_PHASE: AtomicBool = AtomicBool::new(false);

/// Replay of a hang report: say when the calls into the library are over and
/// only the harness's own oracles remain, so that a slow oracle is never
/// mistaken for a library call that does not return.
pub fn phase_begin() {
    if std::env::var("FCV_PHASE_MARK").is_ok() {
        use std::io::Write;
        println!("PHASE case-begin");
        let _ = std::io::stdout().flush();
    }
}
pub fn phase_mark() {
    if std::env::var("FCV_PHASE_MARK").is_ok() {
        use std::io::Write;
        println!("PHASE library-calls-done");
        let _ = std::io::stdout().flush();
    }
}

pub struct Eval {
    pub violations: Vec<Violation>,
    pub nontrivial: bool,
    pub hash: u64,
    pub labels: Vec<&'static str>,
    pub inconclusive: Option<&'static str>,
    pub show: String,
    pub trace: Vec<String>,
}

pub trait Engine: Sync + Send {
    fn name(&self) -> &'static str;
    fn eval(&self, bytes: &[u8], trace: bool) -> Eval;
    /// the decoded case, without running it
    fn describe(&self, _bytes: &[u8]) -> String {
        String::new()
    }
}

/// C20, second sentence: "a child that stays Pending forever never prevents
/// its siblings from being polled when they are woken, from running to
/// completion, or from having their results delivered". In a case that has a
/// never-completing child, an unexplained Pending at quiescence (oracle P) is
/// exactly that, so it counts for C20 as well as for C01.
pub struct C20Fold(pub Arc<dyn Engine>);

impl Engine for C20Fold {
    fn name(&self) -> &'static str {
        self.0.name()
    }
    fn eval(&self, bytes: &[u8], trace: bool) -> Eval {
        let mut ev = self.0.eval(bytes, trace);
        if ev.labels.contains(&"never_child") {
            let extra: Vec<Violation> = ev
                .violations
                .iter()
                .filter(|v| {
                    use crate::world::Family::*;
                    // chain is sequential by design and zip takes part in the
                    // first sentence only
                    v.oracle == crate::world::Oracle::P && matches!(v.fam, Some(Join | TryJoin | Race | RaceOk | Merge | FutGroup | StrGroup))
                })
                .map(|v| Violation { oracle: crate::world::Oracle::Conc, msg: format!("[P, with a never-completing child present] {}", v.msg), fam: v.fam, at: v.at })
                .collect();
            ev.violations.extend(extra);
        }
        ev
    }
    fn describe(&self, bytes: &[u8]) -> String {
        self.0.describe(bytes)
    }
}

/// Several engines behind one property: the first byte of a case selects the
/// engine (by weight), the rest is that engine's input.
pub struct MultiEngine {
    pub parts: Vec<(u32, Arc<dyn Engine>)>,
    pub name: &'static str,
}

impl Engine for MultiEngine {
    fn name(&self) -> &'static str {
        self.name
    }
    fn eval(&self, bytes: &[u8], trace: bool) -> Eval {
        let total: u32 = self.parts.iter().map(|p| p.0).sum();
        let b = bytes.first().cloned().unwrap_or(0) as u32;
        let mut r = (b * total) >> 8;
        let rest = if bytes.is_empty() { bytes } else { &bytes[1..] };
        for (w, e) in &self.parts {
            if r < *w {
                return e.eval(rest, trace);
            }
            r -= *w;
        }
        self.parts.last().unwrap().1.eval(rest, trace)
    }
    fn describe(&self, bytes: &[u8]) -> String {
        let total: u32 = self.parts.iter().map(|p| p.0).sum();
        let b = bytes.first().cloned().unwrap_or(0) as u32;
        let mut r = (b * total) >> 8;
        let rest = if bytes.is_empty() { bytes } else { &bytes[1..] };
        for (w, e) in &self.parts {
            if r < *w {
                return e.describe(rest);
            }
            r -= *w;
        }
        self.parts.last().unwrap().1.describe(rest)
    }
}

pub fn hash_of<T: Hash>(t: &T) -> u64 {
    let mut h = std::collections::hash_map::DefaultHasher::new();
    t.hash(&mut h);
    h.finish()
}

pub fn config_name() -> &'static str {
    if cfg!(feature = "cfg-std") {
        if cfg!(debug_assertions) {
            "std"
        } else {
            "std-release"
        }
    } else if cfg!(feature = "cfg-alloc") {
        "alloc"
    } else {
        "no_std"
    }
}

#[derive(Default)]
pub struct Stats {
    pub evaluations: u64,
    pub nontrivial_evals: u64,
    pub distinct: HashSet<u64>,
    pub labels: BTreeMap<&'static str, u64>,
    pub inconclusive: BTreeMap<&'static str, u64>,
    pub samples: Vec<String>,
    pub other_signals: BTreeMap<&'static str, u64>,
    pub other_examples: BTreeMap<&'static str, String>,
    pub regress_cases: u64,
}

pub struct Failure {
    pub bytes: Vec<u8>,
    pub show: String,
    pub messages: Vec<String>,
    pub trace: Vec<String>,
}

pub struct RunResult {
    pub stats: Stats,
    pub failure: Option<Failure>,
}

pub fn hex(b: &[u8]) -> String {
    b.iter().map(|x| format!("{:02x}", x)).collect()
}
pub fn unhex(s: &str) -> Vec<u8> {
    (0..s.len() / 2).filter_map(|i| u8::from_str_radix(&s[2 * i..2 * i + 2], 16).ok()).collect()
}
pub fn jstr(s: &str) -> String {
    let mut o = String::with_capacity(s.len() + 2);
    o.push('"');
    for ch in s.chars() {
        match ch {
            '"' => o.push_str("\\\""),
            '\\' => o.push_str("\\\\"),
            '\n' => o.push_str("\\n"),
            '\t' => o.push_str("\\t"),
            c if (c as u32) < 0x20 => o.push_str(&format!("\\u{:04x}", c as u32)),
            c => o.push(c),
        }
    }
    o.push('"');
    o
}

struct Slot {
    beat: AtomicU64,
    current: Mutex<Vec<u8>>,
    done: AtomicBool,
}

pub fn run(
    engine: Arc<dyn Engine>,
    prop: &'static str,
    seed: u64,
    total_cases: u64,
    threads: usize,
    max_len: usize,
    hang_secs: u64,
    replay_dir: &str,
    corpus: &[Vec<u8>],
) -> RunResult {
    let corpus: Arc<Vec<Vec<u8>>> = Arc::new(corpus.to_vec());
    let stop = Arc::new(AtomicBool::new(false));
    let slots: Vec<Arc<Slot>> = (0..threads)
        .map(|_| {
            Arc::new(Slot {
                beat: AtomicU64::new(0),
                current: Mutex::new(Vec::new()),
                done: AtomicBool::new(false),
            })
        })
        .collect();
    let per = (total_cases + threads as u64 - 1) / threads as u64;
    let mut handles = Vec::new();
    for t in 0..threads {
        let engine = engine.clone();
        let stop = stop.clone();
        let slot = slots[t].clone();
        let corpus = corpus.clone();
        let h = std::thread::Builder::new()
            .stack_size(64 << 20)
            .spawn(move || {
                crate::crash::set_worker(t);
                struct Done(Arc<Slot>);
                impl Drop for Done {
                    fn drop(&mut self) {
                        self.0.done.store(true, Ordering::SeqCst);
                    }
                }
                let _done = Done(slot.clone());
                let r = shard(engine, prop, seed.wrapping_mul(1000003).wrapping_add(t as u64), per, max_len, stop, slot.clone(), &corpus, t, threads);
                slot.done.store(true, Ordering::SeqCst);
                r
            })
            .unwrap();
        handles.push(h);
    }
    // watchdog
    let mut last: Vec<(u64, std::time::Instant)> = slots.iter().map(|_| (0, std::time::Instant::now())).collect();
    loop {
        std::thread::sleep(std::time::Duration::from_millis(100));
        let mut all_done = true;
        for (i, s) in slots.iter().enumerate() {
            if s.done.load(Ordering::SeqCst) {
                continue;
            }
            all_done = false;
            let b = s.beat.load(Ordering::SeqCst);
            if b != last[i].0 {
                last[i] = (b, std::time::Instant::now());
            } else if last[i].1.elapsed().as_secs() >= hang_secs {
                let bytes = s.current.lock().map(|g| g.clone()).unwrap_or_default();
                let path = format!("{}/hang-{}-{}-{:016x}.json", replay_dir, prop, config_name(), hash_of(&bytes));
                let _ = std::fs::create_dir_all(replay_dir);
                let _ = std::fs::write(
                    &path,
                    format!(
                        "{{\"property\":{},\"config\":{},\"engine\":{},\"hang\":true,\"bytes\":{}}}\n",
                        jstr(prop),
                        jstr(config_name()),
                        jstr(if STORM_PHASE.load(Ordering::SeqCst) { "storm" } else { engine.name() }),
                        jstr(&hex(&bytes))
                    ),
                );
                println!("HANG property={} replay={}", prop, path);
                std::process::exit(2);
            }
        }
        if all_done {
            break;
        }
    }
    let mut stats = Stats::default();
    let mut failure = None;
    for h in handles {
        let (s, f) = match h.join() {
            Ok(x) => x,
            Err(e) => {
                println!("INFRA: a harness worker thread panicked outside the code under test: {}", crate::world::panic_msg(&e));
                std::process::exit(2);
            }
        };
        stats.evaluations += s.evaluations;
        stats.nontrivial_evals += s.nontrivial_evals;
        stats.distinct.extend(s.distinct);
        for (k, v) in s.labels {
            *stats.labels.entry(k).or_default() += v;
        }
        for (k, v) in s.inconclusive {
            *stats.inconclusive.entry(k).or_default() += v;
        }
        for (k, v) in s.other_signals {
            *stats.other_signals.entry(k).or_default() += v;
        }
        for (k, v) in s.other_examples {
            stats.other_examples.entry(k).or_insert(v);
        }
        for x in s.samples {
            if stats.samples.len() < 6 {
                stats.samples.push(x);
            }
        }
        if failure.is_none() {
            failure = f;
        }
    }
    RunResult { stats, failure }
}

fn shard(
    engine: Arc<dyn Engine>,
    prop: &'static str,
    seed: u64,
    cases: u64,
    max_len: usize,
    stop: Arc<AtomicBool>,
    slot: Arc<Slot>,
    corpus: &[Vec<u8>],
    shard_no: usize,
    shards: usize,
) -> (Stats, Option<Failure>) {
    let mut seed_bytes = [0u8; 32];
    for (i, b) in seed_bytes.iter_mut().enumerate() {
        *b = (seed.rotate_left((i * 7) as u32) as u8) ^ (i as u8).wrapping_mul(31);
    }
    let mut stats = Stats::default();
    let mut failure: Option<Failure> = None;
    // saved inputs first (the committed corpus of this property: minimised
    // cases that exposed some seeded change; on a tree on which the property
    // holds they are ordinary generated cases). They bypass proptest.
    for (i, bytes) in corpus.iter().enumerate() {
        if i % shards != shard_no {
            continue;
        }
        if stop.load(Ordering::SeqCst) {
            break;
        }
        slot.beat.fetch_add(1, Ordering::Relaxed);
        crate::crash::publish(bytes);
        if let Ok(mut g) = slot.current.lock() {
            g.clear();
            g.extend_from_slice(bytes);
        }
        let ev = engine.eval(bytes, false);
        stats.evaluations += 1;
        *stats.labels.entry("saved_corpus_input").or_default() += 1;
        if let Some(why) = ev.inconclusive {
            *stats.inconclusive.entry(why).or_default() += 1;
        }
        for l in &ev.labels {
            *stats.labels.entry(l).or_default() += 1;
        }
        if ev.nontrivial {
            stats.nontrivial_evals += 1;
            stats.distinct.insert(ev.hash);
        }
        for v in &ev.violations {
            let p = v.oracle.property();
            if p != prop {
                *stats.other_signals.entry(p).or_default() += 1;
                stats.other_examples.entry(p).or_insert_with(|| format!("{} :: {}", v.msg, ev.show));
            }
        }
        if ev.violations.iter().any(|v| v.oracle.property() == prop) {
            stop.store(true, Ordering::SeqCst);
            let ev = engine.eval(bytes, true);
            let messages: Vec<String> =
                ev.violations.iter().filter(|v| v.oracle.property() == prop).map(|v| format!("{:?}: {}", v.oracle, v.msg)).collect();
            if !messages.is_empty() {
                return (stats, Some(Failure { bytes: bytes.clone(), show: ev.show, messages, trace: ev.trace }));
            }
            // did not reproduce with the trace switched on: leave it to the generated search
            stop.store(false, Ordering::SeqCst);
        }
    }
    // proptest aborts the run at the first failure; run in chunks so that a
    // global stop flag is honoured promptly.
    let chunk: u32 = 2000;
    let mut done = 0u64;
    let mut chunk_no = 0u64;
    // then small byte-level mutations of the saved inputs (a neighbourhood search around the
    // shapes that exposed a seeded change before), generated by proptest like everything else
    let mut mut_left: u64 = if corpus.is_empty() { 0 } else { ((corpus.len() as u64 * 64).min(48_000) + shards as u64 - 1) / shards as u64 };
    let corpus_arc: Arc<Vec<Vec<u8>>> = Arc::new(corpus.to_vec());
    while (done < cases || mut_left > 0) && !stop.load(Ordering::SeqCst) {
        let mutate = mut_left > 0;
        let n = if mutate { chunk.min(mut_left as u32) } else { chunk.min((cases - done) as u32) };
        let mut sb = seed_bytes;
        for (i, b) in chunk_no.to_le_bytes().iter().enumerate() {
            sb[8 + i] ^= *b;
        }
        chunk_no += 1;
        let cfg = Config {
            cases: n,
            failure_persistence: None,
            rng_algorithm: RngAlgorithm::ChaCha,
            rng_seed: RngSeed::Fixed(u64::from_le_bytes(sb[0..8].try_into().unwrap()) ^ u64::from_le_bytes(sb[8..16].try_into().unwrap()).rotate_left(17)),
            max_shrink_iters: 3000,
            max_global_rejects: 0,
            verbose: 0,
            ..Config::default()
        };
        let mut runner = TestRunner::new(cfg);
        let strat = if mutate { mutation_strategy(corpus_arc.clone()) } else { proptest::collection::vec(proptest::num::u8::ANY, 0..max_len).boxed() };
        let failed = std::cell::Cell::new(false);
        let st = std::cell::RefCell::new(&mut stats);
        let res = runner.run(&strat, |bytes| {
            slot.beat.fetch_add(1, Ordering::Relaxed);
            crate::crash::publish(&bytes);
            if let Ok(mut g) = slot.current.lock() {
                g.clear();
                g.extend_from_slice(&bytes);
            }
            let ev = engine.eval(&bytes, false);
            let mine = ev.violations.iter().any(|v| v.oracle.property() == prop);
            if !failed.get() {
                let mut s = st.borrow_mut();
                s.evaluations += 1;
                if mutate {
                    *s.labels.entry("saved_corpus_mutation").or_default() += 1;
                }
                if let Some(why) = ev.inconclusive {
                    *s.inconclusive.entry(why).or_default() += 1;
                }
                for l in &ev.labels {
                    *s.labels.entry(l).or_default() += 1;
                }
                if ev.nontrivial {
                    s.nontrivial_evals += 1;
                    if s.distinct.insert(ev.hash) && s.samples.len() < 3 && s.distinct.len() % 97 == 1 {
                        s.samples.push(ev.show.clone());
                    }
                }
                for v in &ev.violations {
                    let p = v.oracle.property();
                    if p != prop {
                        *s.other_signals.entry(p).or_default() += 1;
                        s.other_examples.entry(p).or_insert_with(|| format!("{} :: {}", v.msg, ev.show));
                    }
                }
            }
            if mine {
                failed.set(true);
                Err(TestCaseError::fail("violation"))
            } else {
                Ok(())
            }
        });
        if mutate {
            mut_left -= n as u64;
        } else {
            done += n as u64;
        }
        match res {
            Ok(()) => {}
            Err(TestError::Fail(_, bytes)) => {
                stop.store(true, Ordering::SeqCst);
                let bytes = minimise(&*engine, prop, bytes, &slot);
                let ev = engine.eval(&bytes, true);
                failure = Some(Failure {
                    bytes,
                    show: ev.show,
                    messages: ev
                        .violations
                        .iter()
                        .filter(|v| v.oracle.property() == prop)
                        .map(|v| format!("{:?}: {}", v.oracle, v.msg))
                        .collect(),
                    trace: ev.trace,
                });
                break;
            }
            Err(TestError::Abort(_)) => {}
        }
    }
    (stats, failure)
}

/// A saved input with one to four small edits (set / insert / delete / nudge a byte) and a
/// short random tail. Positions are mapped monotonically so that proptest can shrink them.
fn mutation_strategy(corpus: Arc<Vec<Vec<u8>>>) -> proptest::strategy::BoxedStrategy<Vec<u8>> {
    let n = corpus.len().max(1);
    (
        0..n,
        proptest::collection::vec((0u8..4, proptest::num::u16::ANY, proptest::num::u8::ANY), 1..5),
        proptest::collection::vec(proptest::num::u8::ANY, 0..6),
    )
        .prop_map(move |(i, edits, tail)| {
            let mut b = corpus.get(i).cloned().unwrap_or_default();
            for (op, pos, val) in edits {
                let len = b.len();
                match op {
                    0 if len > 0 => b[(pos as usize * len) >> 16] = val,
                    1 => b.insert((pos as usize * (len + 1)) >> 16, val),
                    2 if len > 0 => {
                        b.remove((pos as usize * len) >> 16);
                    }
                    3 if len > 0 => {
                        let p = (pos as usize * len) >> 16;
                        b[p] = b[p].wrapping_add(val % 5).wrapping_sub(2);
                    }
                    _ => {}
                }
            }
            b.extend(tail);
            b
        })
        .boxed()
}

/// After proptest's own shrinking: greedy byte-level passes (truncate, zero,
/// delete) that keep a violation of the same property.
fn minimise(engine: &dyn Engine, prop: &str, mut bytes: Vec<u8>, slot: &Slot) -> Vec<u8> {
    let fails = |b: &[u8]| {
        slot.beat.fetch_add(1, Ordering::Relaxed);
        crate::crash::publish(b);
        engine.eval(b, false).violations.iter().any(|v| v.oracle.property() == prop)
    };
    let mut budget = 4000;
    let mut progress = true;
    while progress && budget > 0 {
        progress = false;
        // truncate
        let mut cut = bytes.len() / 2;
        while cut >= 1 && budget > 0 {
            if bytes.len() > cut {
                let cand = bytes[..bytes.len() - cut].to_vec();
                budget -= 1;
                if fails(&cand) {
                    bytes = cand;
                    progress = true;
                    continue;
                }
            }
            cut /= 2;
        }
        // delete single bytes / zero single bytes
        let mut i = 0;
        while i < bytes.len() && budget > 0 {
            let mut cand = bytes.clone();
            cand.remove(i);
            budget -= 1;
            if fails(&cand) {
                bytes = cand;
                progress = true;
                continue;
            }
            if bytes[i] != 0 {
                let mut cand = bytes.clone();
                cand[i] = 0;
                budget -= 1;
                if fails(&cand) {
                    bytes = cand;
                    progress = true;
                } else if bytes[i] > 1 {
                    let mut cand = bytes.clone();
                    cand[i] /= 2;
                    budget -= 1;
                    if fails(&cand) {
                        bytes = cand;
                        progress = true;
                        continue;
                    }
                }
            }
            i += 1;
        }
    }
    bytes
}

pub fn write_replay(dir: &str, prop: &str, engine: &str, f: &Failure) -> String {
    let _ = std::fs::create_dir_all(dir);
    let path = format!("{}/{}-{}-{:016x}.json", dir, prop, config_name(), hash_of(&f.bytes));
    let msgs: Vec<String> = f.messages.iter().map(|m| jstr(m)).collect();
    let trace: Vec<String> = f.trace.iter().map(|m| jstr(m)).collect();
    let body = format!(
        "{{\n \"property\": {},\n \"config\": {},\n \"engine\": {},\n \"bytes\": {},\n \"case\": {},\n \"violations\": [{}],\n \"trace\": [\n  {}\n ]\n}}\n",
        jstr(prop),
        jstr(config_name()),
        jstr(engine),
        jstr(&hex(&f.bytes)),
        jstr(&f.show),
        msgs.join(", "),
        trace.join(",\n  ")
    );
    let _ = std::fs::write(&path, body);
    path
}

pub fn write_regress_replay(dir: &str, prop: &str, name: &str, f: &Failure) -> String {
    let _ = std::fs::create_dir_all(dir);
    let path = format!("{}/{}-{}-regress-{}.json", dir, prop, config_name(), name.replace(|c: char| !c.is_ascii_alphanumeric() && c != '-', "_"));
    let msgs: Vec<String> = f.messages.iter().map(|m| jstr(m)).collect();
    let trace: Vec<String> = f.trace.iter().map(|m| jstr(m)).collect();
    let body = format!(
        "{{\n \"property\": {},\n \"config\": {},\n \"engine\": \"regress\",\n \"regress\": {},\n \"case\": {},\n \"violations\": [{}],\n \"trace\": [\n  {}\n ]\n}}\n",
        jstr(prop),
        jstr(config_name()),
        jstr(name),
        jstr(&f.show),
        msgs.join(", "),
        trace.join(",\n  ")
    );
    let _ = std::fs::write(&path, body);
    path
}

pub fn fragment_json(prop: &str, tier: &str, seed: u64, engine: &str, rule: &str, r: &RunResult, wall: f64, replay: Option<&str>) -> String {
    let s = &r.stats;
    let labels: Vec<String> = s.labels.iter().map(|(k, v)| format!("{}: {}", jstr(k), v)).collect();
    let inc: Vec<String> = s.inconclusive.iter().map(|(k, v)| format!("{}: {}", jstr(k), v)).collect();
    let other: Vec<String> = s.other_signals.iter().map(|(k, v)| format!("{}: {}", jstr(k), v)).collect();
    let other_ex: Vec<String> = s.other_examples.iter().map(|(k, v)| format!("{}: {}", jstr(k), jstr(v))).collect();
    let samples: Vec<String> = s.samples.iter().map(|x| jstr(x)).collect();
    format!(
        "{{\"property_id\": {}, \"tier\": {}, \"seed\": {}, \"config\": {}, \"engine\": {}, \"rule\": {}, \"evaluations\": {}, \"regression_cases\": {}, \"nontrivial_evaluations\": {}, \"distinct_nontrivial\": {}, \"labels\": {{{}}}, \"inconclusive\": {{{}}}, \"other_property_signals\": {{{}}}, \"other_property_examples\": {{{}}}, \"samples\": [{}], \"violations\": {}, \"violation_messages\": [{}], \"replay\": {}, \"wall_s\": {:.3}}}\n",
        jstr(prop),
        jstr(tier),
        seed,
        jstr(config_name()),
        jstr(engine),
        jstr(rule),
        s.evaluations + s.regress_cases,
        s.regress_cases,
        s.nontrivial_evals,
        s.distinct.len(),
        labels.join(", "),
        inc.join(", "),
        other.join(", "),
        other_ex.join(", "),
        samples.join(", "),
        if r.failure.is_some() { 1 } else { 0 },
        r.failure.as_ref().map(|f| f.messages.iter().map(|m| jstr(m)).collect::<Vec<_>>().join(", ")).unwrap_or_default(),
        replay.map(jstr).unwrap_or_else(|| "null".into()),
        wall
    )
}
