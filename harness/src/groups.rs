//! Stateful operation histories on FutureGroup / StreamGroup (plain and
//! keyed) against a reference model (C11, C12).
//!
//! The model is a list of members with the key their `insert` returned. After
//! every operation the group's set view (len / is_empty / contains_key /
//! capacity) is compared with the model, and after every poll the answers of
//! the members during that poll are related to what the poll returned.

use crate::construct::{build_fnode, build_snode, Top};
use crate::driver::{hash_of, Engine, Eval};
use crate::exec::{Exec, RunOut};
use crate::gen::{gen_comb, gen_script, Cur, Profile};
use crate::nodes::{FNode, SNode};
use crate::spec::{Action, ChildSpec};
use crate::val::{Shape, Val};
use crate::world::{self, Answer, Container, Family, Flavor, NodeId, NodeKind, Oracle};
use futures_concurrency::future::future_group as fg;
use futures_concurrency::stream::stream_group as sg;
use futures_core::Stream;
use std::pin::Pin;
use std::task::{Context, Poll};

// ------------------------------------------------------------------ case

#[derive(Clone, Debug, PartialEq, Eq, Hash)]
pub enum Init {
    New,
    WithCap(usize),
    FromIter(Vec<ChildSpec>),
}

#[derive(Clone, Debug, PartialEq, Eq, Hash)]
pub enum GOp {
    Insert(ChildSpec),
    Extend(Vec<ChildSpec>),
    /// scaled index into the keys ever returned (live or not)
    Remove(u8),
    Reserve(usize),
    Act(Action),
}

#[derive(Clone, Debug, PartialEq, Eq, Hash)]
pub struct GroupCase {
    pub fam: Family,
    pub keyed: bool,
    pub init: Init,
    pub ops: Vec<GOp>,
    pub drain: Vec<u8>,
    pub no_drain: bool,
    /// storm mode: the wakers handed out by every poll are invoked by helper
    /// threads, concurrently with the operations and polls that follow
    pub storm: bool,
}

fn show_child(c: &ChildSpec) -> String {
    let tmp = crate::spec::CombSpec {
        family: Family::Join,
        container: Container::Vec,
        children: vec![c.clone()],
        variant: 0,
    };
    let s = tmp.show();
    // strip the artificial wrapper "Join/Vec(" ... ")"
    s["Join/Vec(".len()..s.len() - 1].to_string()
}

impl GroupCase {
    pub fn show(&self) -> String {
        let init = match &self.init {
            Init::New => "new()".to_string(),
            Init::WithCap(c) => format!("with_capacity({})", c),
            Init::FromIter(v) => format!("from_iter([{}])", v.iter().map(show_child).collect::<Vec<_>>().join(", ")),
        };
        let ops: Vec<String> = self
            .ops
            .iter()
            .map(|o| match o {
                GOp::Insert(c) => format!("insert({})", show_child(c)),
                GOp::Extend(v) => format!("extend([{}])", v.iter().map(show_child).collect::<Vec<_>>().join(", ")),
                GOp::Remove(k) => format!("remove(key~{})", k),
                GOp::Reserve(n) => format!("reserve({})", n),
                GOp::Act(Action::Poll { reuse }) => format!("poll{}", if *reuse { "(same waker)" } else { "" }),
                GOp::Act(Action::Fire { leaf, which, twice, thread }) => format!(
                    "fire(leaf~{},{}{}{})",
                    leaf,
                    if *which == 0 { "current".to_string() } else { format!("stale-{}", which) },
                    if *twice { ",x2" } else { "" },
                    if *thread { ",thread" } else { "" }
                ),
                GOp::Act(Action::Drop) => "drop".into(),
                GOp::Act(Action::FireAll) => "fire_all".into(),
            })
            .collect();
        format!(
            "{}{}::{} ; {}{}",
            if self.fam == Family::FutGroup { "FutureGroup" } else { "StreamGroup" },
            if self.keyed { ".keyed()" } else { "" },
            init,
            ops.join("; "),
            if self.no_drain { " (no drain)" } else { " ; then fair drain" }
        ) + if self.storm { " [storm: the wakers of every poll are invoked by helper threads, concurrently with what follows]" } else { "" }
    }
}

// ------------------------------------------------------------------ model

struct Member {
    node: NodeId,
    /// ordinal of the key value `insert` returned; None for members added by
    /// extend / from_iter (their keys are not observable until yielded)
    key: Option<usize>,
    live: bool,
}

#[derive(Default)]
pub struct GroupStats {
    pub slot_reused: bool,
    pub grew_while_pending: bool,
    pub refill_after_none: bool,
    pub removed_live: bool,
    pub removed_dead: bool,
    pub multi_end_in_one_poll: bool,
    pub end_and_item_in_one_poll: bool,
    pub none_seen: bool,
    pub inserted_after_poll: bool,
}

pub trait GroupDyn {
    fn poll_next(&mut self, cx: &mut Context<'_>) -> Poll<Option<Val>>;
    fn after_poll(&mut self);
    /// returns true when the group was mutated
    fn apply(&mut self, op: &GOp) -> bool;
    fn check_view(&mut self, after: &str);
    fn take_stats(&mut self) -> GroupStats;
}

/// The four concrete group types behind one interface.
pub trait RawGroup {
    type Key: Copy + Eq + std::fmt::Debug;
    type Child;
    fn build_child(parent: NodeId, idx: usize, c: &ChildSpec) -> (NodeId, Self::Child);
    fn poll(&mut self, cx: &mut Context<'_>) -> Poll<Option<(Option<Self::Key>, Val)>>;
    fn insert(&mut self, c: Self::Child) -> Self::Key;
    /// false when the type has no Extend impl
    /// `wake`: leaves whose current waker the iterator invokes while the group
    /// consumes it (an iterator is user code: it may well complete an earlier
    /// member's work and thereby wake it)
    fn extend(&mut self, v: Vec<Self::Child>, wake: Vec<NodeId>) -> bool;
    fn remove(&mut self, k: Self::Key) -> bool;
    fn contains(&mut self, k: Self::Key) -> bool;
    fn len(&self) -> usize;
    fn is_empty(&self) -> bool;
    fn capacity(&self) -> usize;
    fn reserve(&mut self, n: usize);
}

fn fchild(parent: NodeId, idx: usize, c: &ChildSpec) -> (NodeId, FNode) {
    let n = build_fnode(parent, idx, c);
    (n.id(), n)
}
fn schild(parent: NodeId, idx: usize, c: &ChildSpec) -> (NodeId, SNode) {
    let n = build_snode(parent, idx, c);
    (n.id(), n)
}

macro_rules! raw_common {
    () => {
        fn insert(&mut self, c: Self::Child) -> Self::Key {
            self.0.insert(c)
        }
        fn remove(&mut self, k: Self::Key) -> bool {
            self.0.remove(k)
        }
        fn contains(&mut self, k: Self::Key) -> bool {
            self.0.contains_key(k)
        }
        fn len(&self) -> usize {
            self.0.len()
        }
        fn is_empty(&self) -> bool {
            self.0.is_empty()
        }
        fn capacity(&self) -> usize {
            self.0.capacity()
        }
        fn reserve(&mut self, n: usize) {
            self.0.reserve(n)
        }
    };
}

pub struct FPlain(fg::FutureGroup<FNode>);
pub struct FKeyed(fg::Keyed<FNode>);
pub struct SPlain(sg::StreamGroup<SNode>);
pub struct SKeyed(sg::Keyed<SNode>);

impl RawGroup for FPlain {
    type Key = fg::Key;
    type Child = FNode;
    fn build_child(parent: NodeId, idx: usize, c: &ChildSpec) -> (NodeId, FNode) {
        fchild(parent, idx, c)
    }
    fn poll(&mut self, cx: &mut Context<'_>) -> Poll<Option<(Option<fg::Key>, Val)>> {
        Pin::new(&mut self.0).poll_next(cx).map(|o| o.map(|v| (None, v)))
    }
    fn extend(&mut self, v: Vec<FNode>, mut wake: Vec<NodeId>) -> bool {
        // sometimes from an iterator without an upper size hint (from_fn),
        // sometimes from the Vec itself (exact hint)
        if !wake.is_empty() {
            self.0.extend(v.into_iter().map(move |x| {
                if let Some(t) = wake.pop() {
                    world::fire(t, 0, false);
                }
                x
            }));
            return true;
        }
        match v.len() % 3 {
            1 => {
                let mut it = v.into_iter();
                self.0.extend(std::iter::from_fn(move || it.next()));
            }
            2 => self.0.extend(Loose(v.into_iter())),
            _ => self.0.extend(v),
        }
        true
    }
    raw_common!();
}
impl RawGroup for FKeyed {
    type Key = fg::Key;
    type Child = FNode;
    fn build_child(parent: NodeId, idx: usize, c: &ChildSpec) -> (NodeId, FNode) {
        fchild(parent, idx, c)
    }
    fn poll(&mut self, cx: &mut Context<'_>) -> Poll<Option<(Option<fg::Key>, Val)>> {
        Pin::new(&mut self.0).poll_next(cx).map(|o| o.map(|(k, v)| (Some(k), v)))
    }
    fn extend(&mut self, v: Vec<FNode>, mut wake: Vec<NodeId>) -> bool {
        // through DerefMut to the group
        use std::ops::DerefMut;
        if !wake.is_empty() {
            self.0.deref_mut().extend(v.into_iter().map(move |x| {
                if let Some(t) = wake.pop() {
                    world::fire(t, 0, false);
                }
                x
            }));
            return true;
        }
        match v.len() % 3 {
            1 => {
                let mut it = v.into_iter();
                self.0.deref_mut().extend(std::iter::from_fn(move || it.next()));
            }
            2 => self.0.deref_mut().extend(Loose(v.into_iter())),
            _ => self.0.deref_mut().extend(v),
        }
        true
    }
    raw_common!();
}
impl RawGroup for SPlain {
    type Key = sg::Key;
    type Child = SNode;
    fn build_child(parent: NodeId, idx: usize, c: &ChildSpec) -> (NodeId, SNode) {
        schild(parent, idx, c)
    }
    fn poll(&mut self, cx: &mut Context<'_>) -> Poll<Option<(Option<sg::Key>, Val)>> {
        Pin::new(&mut self.0).poll_next(cx).map(|o| o.map(|v| (None, v)))
    }
    fn extend(&mut self, _v: Vec<SNode>, _wake: Vec<NodeId>) -> bool {
        false
    }
    raw_common!();
}
impl RawGroup for SKeyed {
    type Key = sg::Key;
    type Child = SNode;
    fn build_child(parent: NodeId, idx: usize, c: &ChildSpec) -> (NodeId, SNode) {
        schild(parent, idx, c)
    }
    fn poll(&mut self, cx: &mut Context<'_>) -> Poll<Option<(Option<sg::Key>, Val)>> {
        Pin::new(&mut self.0).poll_next(cx).map(|o| o.map(|(k, v)| (Some(k), v)))
    }
    fn extend(&mut self, _v: Vec<SNode>, _wake: Vec<NodeId>) -> bool {
        false
    }
    raw_common!();
}

pub struct Runner<G: RawGroup> {
    g: G,
    fam: Family,
    top: NodeId,
    keys: Vec<G::Key>,
    members: Vec<Member>,
    /// key ordinal returned by the most recent keyed poll
    last_key: Option<usize>,
    stats: GroupStats,
    polled_once: bool,
    last_none: bool,
    extends: u32,
}

fn viol(fam: Family, msg: String) {
    world::with(|w| w.violate(Oracle::Group(fam), msg));
}

fn note(msg: String) {
    world::with(|w| {
        if w.trace_on {
            w.trace.push(msg);
        }
    });
}

impl<G: RawGroup> Runner<G> {
    fn ord(&mut self, k: G::Key) -> usize {
        if let Some(i) = self.keys.iter().position(|x| *x == k) {
            i
        } else {
            self.keys.push(k);
            self.keys.len() - 1
        }
    }

    fn live_with_key(&self, ord: usize) -> Option<usize> {
        self.members.iter().position(|m| m.live && m.key == Some(ord))
    }

    fn live_count(&self) -> usize {
        self.members.iter().filter(|m| m.live).count()
    }

    fn unknown_live(&self) -> Vec<usize> {
        self.members
            .iter()
            .enumerate()
            .filter(|(_, m)| m.live && m.key.is_none())
            .map(|(i, _)| i)
            .collect()
    }

    fn any_member_pending(&self) -> bool {
        world::with(|w| {
            self.members
                .iter()
                .any(|m| m.live && matches!(w.nodes[m.node].last_answer(), Some(a) if a.is_pend()))
        })
    }

    fn new_member(&mut self, c: &ChildSpec) -> (NodeId, G::Child) {
        let idx = self.members.len();
        let (id, child) = G::build_child(self.top, idx, c);
        (id, child)
    }

    fn do_insert(&mut self, c: &ChildSpec) {
        let (id, child) = self.new_member(c);
        let cap_before = self.g.capacity();
        let pending_before = self.any_member_pending();
        let polled_before = world::with(|w| w.nodes.iter().filter(|n| n.parent == Some(self.top)).any(|n| !n.polls.is_empty()));
        let k = self.g.insert(child);
        let n_before = self.keys.len();
        let ord = self.ord(k);
        if ord < n_before {
            self.stats.slot_reused = true;
        }
        if self.g.capacity() > cap_before && pending_before {
            self.stats.grew_while_pending = true;
        }
        if polled_before {
            self.stats.inserted_after_poll = true;
        }
        if self.last_none {
            self.stats.refill_after_none = true;
        }
        note(format!(" OP insert -> key#{} ({})", ord, world::with(|w| w.path(id))));
        if let Some(other) = self.live_with_key(ord) {
            let (a, b) = world::with(|w| (w.path(self.members[other].node), w.path(id)));
            viol(
                self.fam,
                format!("insert returned key#{} for {} although {} is live under the same key (keys of simultaneously live members must be distinct)", ord, b, a),
            );
        }
        world::with(|w| w.nodes[id].key = Some(ord));
        self.members.push(Member { node: id, key: Some(ord), live: true });
    }

    fn do_extend(&mut self, v: &[ChildSpec]) -> bool {
        let mut kids = Vec::new();
        let mut ids = Vec::new();
        for c in v {
            let idx = self.members.len() + ids.len();
            let (id, child) = G::build_child(self.top, idx, c);
            ids.push(id);
            kids.push(child);
        }
        let cap_before = self.g.capacity();
        let pending_before = self.any_member_pending();
        // every fourth extend: the iterator wakes members that are parked
        self.extends += 1;
        let wake: Vec<NodeId> = if self.extends % 4 == 2 {
            world::with(|w| {
                w.leaves
                    .iter()
                    .cloned()
                    .filter(|&l| {
                        let n = &w.nodes[l];
                        matches!(n.last_answer(), Some(a) if a.is_pend()) && !n.wakers.is_empty() && w.live(l)
                    })
                    .take(kids.len().max(1))
                    .collect()
            })
        } else {
            Vec::new()
        };
        if !wake.is_empty() {
            note(format!(" (the iterator given to extend invokes the current wakers of {} parked leaves)", wake.len()));
        }
        if !self.g.extend(kids, wake) {
            // type has no Extend: fall back to inserts (children were built
            // already and are gone now; rebuild is not possible) - unreachable,
            // the generator only emits Extend for FutureGroup
            return false;
        }
        if self.g.capacity() > cap_before && pending_before {
            self.stats.grew_while_pending = true;
        }
        if self.last_none && !ids.is_empty() {
            self.stats.refill_after_none = true;
        }
        note(format!(" OP extend with {} members", ids.len()));
        for id in ids {
            self.members.push(Member { node: id, key: None, live: true });
        }
        true
    }

    fn do_remove(&mut self, sel: u8) {
        if self.keys.is_empty() {
            return;
        }
        let ord = (sel as usize * self.keys.len()) >> 8;
        let k = self.keys[ord];
        let expect = self.live_with_key(ord);
        let unknown = self.unknown_live();
        let dropped_before: Vec<u32> = world::with(|w| self.members.iter().map(|m| w.nodes[m.node].drops).collect());
        let r = self.g.remove(k);
        note(format!(" OP remove(key#{}) -> {}", ord, r));
        let now = world::with(|w| w.tick());
        let newly_dropped: Vec<usize> = world::with(|w| {
            self.members
                .iter()
                .enumerate()
                .filter(|(i, m)| w.nodes[m.node].drops > dropped_before[*i])
                .map(|(i, _)| i)
                .collect()
        });
        match expect {
            Some(mi) => {
                self.stats.removed_live = true;
                let node = self.members[mi].node;
                if !r {
                    viol(self.fam, format!("remove(key#{}) returned false although {} is live under that key", ord, world::with(|w| w.path(node))));
                }
                if !newly_dropped.contains(&mi) {
                    if r {
                        viol(self.fam, format!("remove(key#{}) returned true but {} was not dropped at removal", ord, world::with(|w| w.path(node))));
                    }
                } else {
                    self.members[mi].live = false;
                    world::with(|w| w.nodes[node].removed_at = Some(now));
                }
                for &o in newly_dropped.iter().filter(|&&o| o != mi) {
                    let p = world::with(|w| w.path(self.members[o].node));
                    viol(self.fam, format!("remove(key#{}) dropped {} which is not the member under that key", ord, p));
                    self.members[o].live = false;
                    let node = self.members[o].node;
                    world::with(|w| w.nodes[node].removed_at = Some(now));
                }
                if r && !newly_dropped.contains(&mi) {
                    // keep the model consistent with what the group claims
                    self.members[mi].live = false;
                    world::with(|w| w.nodes[node].removed_at = Some(now));
                }
            }
            None => {
                self.stats.removed_dead = true;
                // a member added through extend/from_iter may sit under this key
                if r {
                    let cand: Vec<usize> = newly_dropped.iter().cloned().filter(|i| unknown.contains(i)).collect();
                    if cand.len() == 1 && newly_dropped.len() == 1 {
                        let mi = cand[0];
                        self.members[mi].live = false;
                        let node = self.members[mi].node;
                        world::with(|w| w.nodes[node].removed_at = Some(now));
                    } else {
                        viol(
                            self.fam,
                            format!("remove(key#{}) returned true although no live member was inserted under that key ({} members dropped)", ord, newly_dropped.len()),
                        );
                        for &o in &newly_dropped {
                            self.members[o].live = false;
                            let node = self.members[o].node;
                            world::with(|w| w.nodes[node].removed_at = Some(now));
                        }
                    }
                } else if !newly_dropped.is_empty() {
                    let p = world::with(|w| w.path(self.members[newly_dropped[0]].node));
                    viol(self.fam, format!("remove(key#{}) returned false but dropped {}", ord, p));
                    for &o in &newly_dropped {
                        self.members[o].live = false;
                        let node = self.members[o].node;
                        world::with(|w| w.nodes[node].removed_at = Some(now));
                    }
                }
            }
        }
    }
}

impl<G: RawGroup> GroupDyn for Runner<G> {
    fn poll_next(&mut self, cx: &mut Context<'_>) -> Poll<Option<Val>> {
        self.last_key = None;
        match self.g.poll(cx) {
            Poll::Pending => Poll::Pending,
            Poll::Ready(None) => Poll::Ready(None),
            Poll::Ready(Some((k, v))) => {
                if let Some(k) = k {
                    let o = self.ord(k);
                    self.last_key = Some(o);
                }
                Poll::Ready(Some(v))
            }
        }
    }

    fn after_poll(&mut self) {
        self.polled_once = true;
        let fam = self.fam;
        let top = self.top;
        // what the members answered during this poll
        let (p, result) = world::with(|w| {
            let p = w.nodes[top].polls.last().cloned().unwrap();
            (p.clone(), p.answer)
        });
        if matches!(result, Answer::Panic) {
            return;
        }
        let mut yields: Vec<(usize, Shape)> = Vec::new();
        let mut ends: Vec<usize> = Vec::new();
        world::with(|w| {
            for (mi, m) in self.members.iter().enumerate() {
                for cp in w.nodes[m.node].polls.iter().filter(|cp| cp.begin >= p.begin && cp.begin <= p.end) {
                    match &cp.answer {
                        Answer::Item(s) | Answer::Ready(s) => yields.push((mi, s.clone())),
                        Answer::End => ends.push(mi),
                        _ => {}
                    }
                    if !m.live {
                        // Q reports the poll itself; the model just notes it
                    }
                }
            }
        });
        if ends.len() >= 2 {
            self.stats.multi_end_in_one_poll = true;
        }
        if !ends.is_empty() && !yields.is_empty() {
            self.stats.end_and_item_in_one_poll = true;
        }
        // members that ended (streams) or resolved (futures) leave the model
        for &mi in &ends {
            self.members[mi].live = false;
            let node = self.members[mi].node;
            let (drops, path) = world::with(|w| (w.nodes[node].drops, w.path(node)));
            if drops == 0 {
                viol(fam, format!("{} returned None during this poll but was not dropped when the poll returned", path));
            }
        }
        let live_after_ends = self.live_count();
        match &result {
            Answer::Item(s) => {
                let hit = yields.iter().position(|(_, ys)| ys == s);
                match hit {
                    None => viol(fam, format!("the group yielded {} but no member produced that value during this poll", s.show())),
                    Some(h) => {
                        let mi = yields[h].0;
                        if !self.members[mi].live {
                            let p = world::with(|w| w.path(self.members[mi].node));
                            viol(fam, format!("the group yielded {} produced by {} which had been removed, had ended or had already been yielded", s.show(), p));
                        }
                        if let Some(ko) = self.last_key {
                            match self.members[mi].key {
                                Some(mk) if mk != ko => {
                                    let p = world::with(|w| w.path(self.members[mi].node));
                                    viol(fam, format!("keyed group yielded {} of {} under key#{} but its insert returned key#{}", s.show(), p, ko, mk));
                                }
                                Some(_) => {}
                                None => {
                                    if let Some(other) = self.live_with_key(ko) {
                                        if other != mi {
                                            let (a, b) = world::with(|w| (w.path(self.members[other].node), w.path(self.members[mi].node)));
                                            viol(fam, format!("keyed group yielded {} under key#{} which is the key of live member {}", b, ko, a));
                                        }
                                    }
                                    self.members[mi].key = Some(ko);
                                    let node = self.members[mi].node;
                                    world::with(|w| w.nodes[node].key = Some(ko));
                                }
                            }
                        }
                        if fam == Family::FutGroup {
                            self.members[mi].live = false;
                        }
                        // any other value produced during this poll is lost
                        for (j, (omi, os)) in yields.iter().enumerate() {
                            if j != h {
                                let p = world::with(|w| w.path(self.members[*omi].node));
                                viol(fam, format!("{} produced {} during a poll that yielded {}: the group has no buffer, the value is lost", p, os.show(), s.show()));
                            }
                        }
                    }
                }
            }
            Answer::Pend(_) => {
                if let Some((mi, s)) = yields.first() {
                    let p = world::with(|w| w.path(self.members[*mi].node));
                    viol(fam, format!("{} produced {} during this poll but the group returned Pending", p, s.show()));
                }
                if live_after_ends == 0 {
                    viol(fam, "the group returned Pending although no member remains (it must return None exactly when it is empty)".into());
                }
            }
            Answer::End => {
                self.stats.none_seen = true;
                if let Some((mi, s)) = yields.first() {
                    let p = world::with(|w| w.path(self.members[*mi].node));
                    viol(fam, format!("{} produced {} during this poll but the group returned None", p, s.show()));
                }
                if live_after_ends != 0 {
                    let m = self.members.iter().find(|m| m.live).unwrap();
                    let p = world::with(|w| w.path(m.node));
                    viol(fam, format!("the group returned None although {} member(s) remain, e.g. {}", live_after_ends, p));
                }
            }
            _ => {}
        }
        // a future member that resolved but was not the yielded one has been
        // reported above; take it out of the model so that one slip is one report
        if fam == Family::FutGroup {
            for (mi, _) in &yields {
                self.members[*mi].live = false;
            }
        }
        self.last_none = matches!(result, Answer::End);
        self.check_view("poll");
    }

    fn apply(&mut self, op: &GOp) -> bool {
        match op {
            GOp::Insert(c) => {
                self.do_insert(c);
                self.last_none = false;
                true
            }
            GOp::Extend(v) => {
                let r = self.do_extend(v);
                if r && !v.is_empty() {
                    self.last_none = false;
                }
                r
            }
            GOp::Remove(k) => {
                self.do_remove(*k);
                true
            }
            GOp::Reserve(n) => {
                let cap = self.g.capacity();
                let pending = self.any_member_pending();
                self.g.reserve(*n);
                if self.g.capacity() > cap && pending {
                    self.stats.grew_while_pending = true;
                }
                note(format!(" OP reserve({}) capacity {} -> {}", n, cap, self.g.capacity()));
                true
            }
            GOp::Act(_) => false,
        }
    }

    fn check_view(&mut self, after: &str) {
        let fam = self.fam;
        let live = self.live_count();
        let len = self.g.len();
        if len != live {
            viol(fam, format!("after {}: len() = {} but {} members were inserted and neither yielded/ended nor removed", after, len, live));
        }
        let ie = self.g.is_empty();
        if ie != (live == 0) {
            viol(fam, format!("after {}: is_empty() = {} but {} members are live", after, ie, live));
        }
        let cap = self.g.capacity();
        if cap < len || cap < live {
            viol(fam, format!("after {}: capacity() = {} is below len() = {} ({} live members)", after, cap, len, live));
        }
        let unknown = !self.unknown_live().is_empty();
        for ord in 0..self.keys.len() {
            let k = self.keys[ord];
            let has = self.g.contains(k);
            let expect = self.live_with_key(ord).is_some();
            if expect && !has {
                let p = world::with(|w| w.path(self.members[self.live_with_key(ord).unwrap()].node));
                viol(fam, format!("after {}: contains_key(key#{}) = false although {} is live under that key", after, ord, p));
            }
            if has && !expect && !unknown {
                viol(fam, format!("after {}: contains_key(key#{}) = true although no live member was inserted under that key", after, ord));
            }
        }
    }

    fn take_stats(&mut self) -> GroupStats {
        std::mem::take(&mut self.stats)
    }
}

fn runner<G: RawGroup + 'static>(g: G, fam: Family, top: NodeId, init_ids: Vec<NodeId>) -> Box<dyn GroupDyn> {
    let mut r = Runner {
        g,
        fam,
        top,
        keys: Vec::new(),
        members: Vec::new(),
        last_key: None,
        stats: GroupStats::default(),
        polled_once: false,
        last_none: false,
        extends: 0,
    };
    // members given to from_iter: their keys are not observable
    for id in init_ids {
        r.members.push(Member { node: id, key: None, live: true });
    }
    Box::new(r)
}

/// An iterator with an honest but inexact size hint (as after `filter`): the
/// lower bound under-reports, the upper bound leaves room.
pub struct Loose<I: Iterator>(pub I);
impl<I: Iterator> Iterator for Loose<I> {
    type Item = I::Item;
    fn next(&mut self) -> Option<I::Item> {
        self.0.next()
    }
    fn size_hint(&self) -> (usize, Option<usize>) {
        let (lo, hi) = self.0.size_hint();
        (lo / 2, hi.map(|h| h + 1 + h % 3))
    }
}

/// Build the group (and its initial members) and wrap it.
fn build_group(case: &GroupCase, top: NodeId) -> Box<dyn GroupDyn> {
    match case.fam {
        Family::FutGroup => {
            let (g, init_ids): (fg::FutureGroup<FNode>, Vec<NodeId>) = match &case.init {
                Init::New => (fg::FutureGroup::new(), vec![]),
                Init::WithCap(c) => (fg::FutureGroup::with_capacity(*c), vec![]),
                Init::FromIter(v) => {
                    let mut ids = Vec::new();
                    let kids: Vec<FNode> = v
                        .iter()
                        .enumerate()
                        .map(|(i, c)| {
                            let (id, n) = fchild(top, i, c);
                            ids.push(id);
                            n
                        })
                        .collect();
                    match kids.len() % 3 {
                        1 => {
                            let mut it = kids.into_iter();
                            (std::iter::from_fn(move || it.next()).collect(), ids)
                        }
                        2 => (Loose(kids.into_iter()).collect(), ids),
                        _ => (kids.into_iter().collect(), ids),
                    }
                }
            };
            if case.keyed {
                runner(FKeyed(g.keyed()), case.fam, top, init_ids)
            } else {
                runner(FPlain(g), case.fam, top, init_ids)
            }
        }
        _ => {
            let (g, init_ids): (sg::StreamGroup<SNode>, Vec<NodeId>) = match &case.init {
                Init::New => (sg::StreamGroup::new(), vec![]),
                Init::WithCap(c) => (sg::StreamGroup::with_capacity(*c), vec![]),
                Init::FromIter(v) => {
                    let mut ids = Vec::new();
                    let kids: Vec<SNode> = v
                        .iter()
                        .enumerate()
                        .map(|(i, c)| {
                            let (id, n) = schild(top, i, c);
                            ids.push(id);
                            n
                        })
                        .collect();
                    match kids.len() % 3 {
                        1 => {
                            let mut it = kids.into_iter();
                            (std::iter::from_fn(move || it.next()).collect(), ids)
                        }
                        2 => (Loose(kids.into_iter()).collect(), ids),
                        _ => (kids.into_iter().collect(), ids),
                    }
                }
            };
            if case.keyed {
                runner(SKeyed(g.keyed()), case.fam, top, init_ids)
            } else {
                runner(SPlain(g), case.fam, top, init_ids)
            }
        }
    }
}

// ------------------------------------------------------------------ run

pub struct GroupOut {
    pub run: RunOut,
    pub stats: GroupStats,
}

pub fn run_group_case(case: &GroupCase, std_cfg: bool, trace: bool) -> GroupOut {
    world::reset(std_cfg, trace);
    let top = world::with(|w| {
        w.group_model = true;
        w.new_node(
            None,
            0,
            NodeKind::Comb {
                family: case.fam,
                container: if case.keyed { Container::KeyedGroup } else { Container::Group },
                children: Vec::new(),
            },
        )
    });
    // from_iter / with_capacity are library code too
    let built = std::panic::catch_unwind(std::panic::AssertUnwindSafe(|| build_group(case, top)));
    let g = match built {
        Ok(g) => g,
        Err(e) => {
            let msg = world::panic_msg(&e);
            world::with(|w| w.violate_f(Oracle::Group(case.fam), Some(case.fam), format!("constructing the group ({}) panicked: {}", match case.init { Init::New => "new", Init::WithCap(_) => "with_capacity", Init::FromIter(_) => "from_iter / collect" }, msg)));
            let world = world::take_world();
            return GroupOut {
                run: RunOut { world, top, inconclusive: None, quiescent: false, dropped_early: false, injected_panic: false, spurious_polls: 0, waker_changes_while_parked: 0 },
                stats: GroupStats::default(),
            };
        }
    };
    let mut ex = Exec::with_top(top, Top::G(g));
    if let Some(g) = ex.group() {
        g.check_view("construction");
    }
    let mut script_steps = 0usize;
    let mut storm_bytes = crate::exec::StormBytes::new(case.drain.clone());
    if case.storm {
        crate::exec::storm_begin();
    }
    for op in &case.ops {
        if !ex.alive() {
            break;
        }
        match op {
            GOp::Act(a) => {
                ex.act(a);
                if case.storm && matches!(a, Action::Poll { .. }) {
                    // the operations that follow race with these wake-ups
                    ex.storm_send(&mut storm_bytes);
                }
            }
            other => {
                if let GOp::Insert(c) = other {
                    script_steps += child_steps(c);
                }
                if let GOp::Extend(v) = other {
                    script_steps += v.iter().map(child_steps).sum::<usize>();
                }
                let name = match other {
                    GOp::Insert(_) => "insert",
                    GOp::Extend(_) => "extend",
                    GOp::Remove(_) => "remove",
                    GOp::Reserve(_) => "reserve",
                    GOp::Act(_) => "",
                };
                let r = std::panic::catch_unwind(std::panic::AssertUnwindSafe(|| match ex.group() {
                    Some(g) => {
                        let m = g.apply(other);
                        g.check_view(name);
                        m
                    }
                    None => false,
                }));
                match r {
                    Ok(true) => ex.mutated = true,
                    Ok(false) => {}
                    Err(e) => {
                        if e.is::<world::Runaway>() {
                            ex.inconclusive = Some("runaway inside a group operation");
                        } else {
                            let msg = world::panic_msg(&e);
                            world::with(|w| w.violate(Oracle::Group(case.fam), format!("{}() panicked: {}", name, msg)));
                            // the group may be in any state now: only drop it
                            ex.panicked = true;
                        }
                    }
                }
            }
        }
    }
    if let Init::FromIter(v) = &case.init {
        script_steps += v.iter().map(child_steps).sum::<usize>();
    }
    let mut quiescent = false;
    if !case.no_drain && ex.alive() {
        let bound = script_steps * 4 + 64;
        quiescent = if case.storm { ex.storm_drain(&mut storm_bytes, bound * 2, None) } else { ex.drain(&case.drain, bound) };
    }
    let dropped_early = ex.dropped;
    let inconclusive = ex.inconclusive;
    let injected_panic = ex.injected_panic;
    let spurious_polls = ex.spurious_polls;
    let waker_changes_while_parked = ex.waker_changes_while_parked;
    let was_alive = ex.alive();
    if quiescent && was_alive {
        crate::oracle::check_progress(top);
    }
    let stats = match ex.group() {
        Some(g) => g.take_stats(),
        None => GroupStats::default(),
    };
    let (held, held_r) = ex.finish();
    if case.storm && crate::exec::storm_end() {
        world::with(|w| w.violate_f(Oracle::WakerPanic, Some(case.fam), "invoking a waker from a helper thread, concurrently with operations on the group, panicked".into()));
    }
    let leaves: Vec<NodeId> = world::with(|w| w.leaves.clone());
    for (i, l) in leaves.iter().enumerate() {
        if i < 3 {
            let _ = std::panic::catch_unwind(std::panic::AssertUnwindSafe(|| world::fire(*l, 0, false)));
        }
    }
    drop(held);
    drop(held_r);
    let world = world::take_world();
    GroupOut {
        run: RunOut {
            world,
            top,
            inconclusive,
            quiescent: quiescent && was_alive,
            dropped_early,
            injected_panic,
            spurious_polls,
            waker_changes_while_parked,
        },
        stats,
    }
}

fn child_steps(c: &ChildSpec) -> usize {
    match c {
        ChildSpec::Leaf(l) => l.script.len() + 1,
        ChildSpec::Inner(i) => i.script_steps() + 1,
    }
}

// ------------------------------------------------------------------ generation

pub struct GroupProfile {
    pub fam: Family,
    pub base: Profile,
    pub max_ops: usize,
    pub p_drop: u32,
    pub p_nest: u32,
}

fn gen_member(c: &mut Cur, gp: &GroupProfile) -> ChildSpec {
    let flavor = if gp.fam == Family::FutGroup { Flavor::F } else { Flavor::S };
    if c.coin(gp.p_nest) {
        let fams: &[(Family, u32)] = if flavor == Flavor::F {
            &[(Family::Join, 10), (Family::Race, 6), (Family::TryJoin, 3)]
        } else {
            &[(Family::Merge, 10), (Family::Zip, 6), (Family::Chain, 4)]
        };
        let f = c.weighted(fams);
        let mut nests = 0usize;
        ChildSpec::Inner(gen_comb(c, &gp.base, f, 1, &mut nests))
    } else {
        ChildSpec::Leaf(gen_script(c, &gp.base, flavor, 8))
    }
}

pub fn gen_group_case(bytes: &[u8], gp: &GroupProfile) -> GroupCase {
    let mut c = Cur::new(bytes);
    let keyed = c.coin(110);
    let init = match c.weighted(&[(0u8, 60), (1, 26), (2, 14)]) {
        0 => Init::New,
        1 => Init::WithCap([0usize, 1, 2, 3, 4, 8, 23, 64, 40, 63, 65, 100, 128, 64][c.choice(14)]),
        _ => {
            if c.coin(10) {
                // collected from exactly a block of the readiness bitset (or one more):
                // simple members, most of them parked
                let n = [64usize, 65, 128, 63][c.choice(4)];
                let t = c.weighted(&[(1u8, 60), (0, 20), (3, 20)]);
                Init::FromIter(
                    (0..n)
                        .map(|_| {
                            let script = match t {
                                0 => vec![],
                                1 => vec![crate::world::Step::Later],
                                _ => vec![crate::world::Step::Never],
                            };
                            ChildSpec::Leaf(crate::spec::LeafSpec { script, always: false, hint: 0, dropwake: false })
                        })
                        .collect(),
                )
            } else {
                let n = if c.coin(40) { 9 + c.choice(8) } else { c.choice(5) };
                Init::FromIter((0..n).map(|_| gen_member(&mut c, gp)).collect())
            }
        }
    };
    let nops = c.choice(gp.max_ops + 1);
    let mut ops = Vec::with_capacity(nops);
    let extend_w = if gp.fam == Family::FutGroup { 3 } else { 0 };
    for _ in 0..nops {
        let k = c.weighted(&[(0u8, 24), (1, 30), (2, 22), (3, 12), (4, 4), (5, extend_w), (6, gp.p_drop), (7, 2), (8, 3)]);
        if k == 8 {
            ops.push(GOp::Act(Action::FireAll));
            continue;
        }
        if k == 7 {
            // a burst of inserts of short-lived members: many members ending in
            // one poll, tables growing across their inline capacities (10, 23)
            // and bitset blocks (64)
            let mut n = c.weighted(&[(3usize, 20), (6, 20), (11, 25), (12, 15), (24, 14), (70, 6), (1100, 1)]);
            // a group of more than a thousand members is expensive to model:
            // rare in the quick tier
            if n == 1100 && gp.max_ops <= 40 && !c.coin(30) {
                n = 70;
            }
            // half of the bursts use one script for all their members (e.g. a
            // thousand members that all stay pending)
            let template: Option<u8> = if c.coin(128) { Some(c.weighted(&[(0u8, 20), (1, 50), (2, 15), (3, 15)])) } else { None };
            for _ in 0..n {
                let k = match template {
                    Some(t) => t,
                    None => c.weighted(&[(0u8, 50), (1, 30), (2, 20)]),
                };
                let script = match k {
                    0 => vec![],
                    1 => vec![crate::world::Step::Later],
                    2 => vec![crate::world::Step::Yield(true)],
                    _ => vec![crate::world::Step::Never],
                };
                ops.push(GOp::Insert(ChildSpec::Leaf(crate::spec::LeafSpec { script, always: false, hint: 0, dropwake: false })));
            }
            continue;
        }
        ops.push(match k {
            0 => GOp::Insert(gen_member(&mut c, gp)),
            1 => GOp::Act(Action::Poll { reuse: c.coin(70) }),
            2 => GOp::Act(Action::Fire {
                leaf: c.byte(),
                which: if c.coin(gp.base.p_stale) { 1 + c.choice(3) as u8 } else { 0 },
                twice: c.coin(40),
                thread: c.coin(gp.base.p_thread),
            }),
            3 => GOp::Remove(c.byte()),
            4 => GOp::Reserve([0usize, 1, 2, 5, 17, 40, 64, 100, 130][c.choice(9)]),
            5 => {
                let n = c.choice(4);
                GOp::Extend((0..n).map(|_| gen_member(&mut c, gp)).collect())
            }
            _ => GOp::Act(Action::Drop),
        });
    }
    let no_drain = c.coin(gp.base.p_nodrain);
    let drain: Vec<u8> = (0..24).map(|_| c.byte()).collect();
    let storm = c.coin(gp.base.p_storm);
    GroupCase {
        fam: gp.fam,
        keyed,
        init,
        ops,
        drain,
        no_drain,
        storm,
    }
}

// ------------------------------------------------------------------ engine

pub struct GroupEngine {
    pub gp: GroupProfile,
    /// also report L/P/Q/D/Conc violations seen in group histories as
    /// violations of the group property
    pub fold_shared: bool,
}

pub fn group_labels(case: &GroupCase, out: &GroupOut) -> Vec<&'static str> {
    let mut l = Vec::new();
    let s = &out.stats;
    if s.slot_reused {
        l.push("slot_reused");
    }
    if s.grew_while_pending {
        l.push("grew_while_pending");
    }
    if s.refill_after_none {
        l.push("refill_after_none");
    }
    if s.removed_live {
        l.push("removed_live_member");
    }
    if s.removed_dead {
        l.push("remove_of_dead_key");
    }
    if s.multi_end_in_one_poll {
        l.push("members_ended_same_poll");
    }
    if s.end_and_item_in_one_poll {
        l.push("end_and_item_same_poll");
    }
    if s.none_seen {
        l.push("returned_none");
    }
    if s.inserted_after_poll {
        l.push("insert_after_polling_began");
    }
    if case.keyed {
        l.push("keyed");
    }
    if case.storm {
        l.push("concurrent_wakes_from_helper_threads");
    }
    {
        fn never(c: &ChildSpec) -> bool {
            match c {
                ChildSpec::Leaf(l) => l.script.contains(&crate::world::Step::Never),
                ChildSpec::Inner(i) => i.children.iter().any(never),
            }
        }
        let mut members: Vec<&ChildSpec> = Vec::new();
        if let Init::FromIter(v) = &case.init {
            members.extend(v.iter());
        }
        for o in &case.ops {
            match o {
                GOp::Insert(c) => members.push(c),
                GOp::Extend(v) => members.extend(v.iter()),
                _ => {}
            }
        }
        if members.into_iter().any(never) {
            l.push("never_child");
        }
    }
    match case.init {
        Init::New => l.push("init_new"),
        Init::WithCap(_) => l.push("init_with_capacity"),
        Init::FromIter(_) => l.push("init_from_iter"),
    }
    if case.ops.iter().any(|o| matches!(o, GOp::Extend(_))) {
        l.push("extend");
    }
    if case.ops.iter().any(|o| matches!(o, GOp::Reserve(_))) {
        l.push("reserve");
    }
    let r = &out.run;
    if r.spurious_polls > 0 {
        l.push("spurious_poll");
    }
    if r.waker_changes_while_parked > 0 {
        l.push("parent_waker_changed_while_parked");
    }
    if r.dropped_early {
        l.push("dropped_by_history");
    }
    if r.quiescent {
        l.push("quiescent_pending");
    }
    if r.injected_panic {
        l.push("panic_injected");
    }
    if r.inconclusive.is_some() {
        l.push("inconclusive");
    }
    l.push(if case.fam == Family::FutGroup { "fam_future_group" } else { "fam_stream_group" });
    l
}

pub fn group_nontrivial(case: &GroupCase, out: &GroupOut) -> bool {
    let s = &out.stats;
    s.slot_reused || s.grew_while_pending || s.refill_after_none || (case.fam == Family::StrGroup && s.multi_end_in_one_poll)
}

impl Engine for GroupEngine {
    fn name(&self) -> &'static str {
        "group"
    }
    fn describe(&self, bytes: &[u8]) -> String {
        gen_group_case(bytes, &self.gp).show()
    }
    fn eval(&self, bytes: &[u8], trace: bool) -> Eval {
        let case = gen_group_case(bytes, &self.gp);
        crate::driver::phase_begin();
        let mut out = run_group_case(&case, cfg!(feature = "cfg-std"), trace);
        crate::driver::phase_mark();
        crate::oracle::check_trace(&mut out.run.world);
        let nontrivial = out.run.inconclusive.is_none() && group_nontrivial(&case, &out);
        let labels = group_labels(&case, &out);
        let mut violations = if out.run.inconclusive.is_some() { Vec::new() } else { std::mem::take(&mut out.run.world.viol) };
        if case.storm {
            // wake-ups arrive at moments the harness cannot order against member polls
            violations.retain(|v| v.oracle != Oracle::S);
        }
        if self.fold_shared {
            // shared oracles count for the group property only when the group
            // itself is to blame (not a combinator nested inside a member)
            let extra: Vec<world::Violation> = violations
                .iter()
                .filter(|v| {
                    matches!(
                        v.oracle,
                        Oracle::L | Oracle::P | Oracle::Q | Oracle::D | Oracle::DV | Oracle::Conc | Oracle::WakerPanic | Oracle::Panic(_)
                    ) && v.fam == Some(case.fam)
                })
                .map(|v| world::Violation {
                    oracle: Oracle::Group(case.fam),
                    msg: format!("[{:?}] {}", v.oracle, v.msg),
                    fam: Some(case.fam),
                    at: v.at,
                })
                .collect();
            violations.extend(extra);
        }
        let trace_lines = std::mem::take(&mut out.run.world.trace);
        let ev = Eval {
            violations,
            nontrivial,
            hash: hash_of(&case),
            labels,
            inconclusive: out.run.inconclusive,
            show: case.show(),
            trace: trace_lines,
        };
        drop(out);
        world::reset(cfg!(feature = "cfg-std"), false);
        ev
    }
}
