//! Concurrent-stream engine (C13-C15, and the co-stream share of C02/C03).
//!
//! A case is a scripted source (a scripted stream through `.co()`, or a
//! `Vec` through `into_co_stream()`), an adapter stack of depth <= 3 over
//! {map, enumerate, take, limit}, a terminal operation (collect into Vec,
//! for_each, try_for_each, collect into Result<Vec,_>), one scripted *work*
//! future per (closure stage, item), and an adversarial poll/fire/drop
//! schedule executed by the same wake-only executor as the combinators.
//!
//! Everything the library is given is harness-owned: the source is a scripted
//! leaf, every closure invocation creates a scripted leaf ("work" node) whose
//! creation, polls, completion and drop are logged in the `World`, and every
//! value is a token. The oracles below are stated over that trace.

use crate::construct::Top;
use crate::driver::{hash_of, Engine, Eval};
use crate::exec::{Exec, RunOut};
use crate::gen::{gen_schedule, Cur, Profile};
use crate::nodes::{BoxF, DropMark, LeafS};
use crate::spec::{Action, LeafSpec};
use crate::val::{Shape, Val};
use crate::world::{self, Answer, Container, Family, Flavor, LeafOut, NodeId, NodeKind, Oracle, Step, World};
use futures_concurrency::concurrent_stream::{ConcurrentStream, IntoConcurrentStream};
use futures_concurrency::stream::StreamExt as _;
use std::collections::BTreeMap;
use std::future::Future;
use std::num::NonZeroUsize;
use std::pin::Pin;
use std::task::{Context, Poll};

// ------------------------------------------------------------------ case

#[derive(Clone, Copy, Debug, PartialEq, Eq, Hash)]
pub enum Adapter {
    Map,
    Enumerate,
    Take(usize),
    /// 0 = `limit(None)`
    Limit(usize),
}

#[derive(Clone, Copy, Debug, PartialEq, Eq, Hash)]
pub enum Terminal {
    CollectVec,
    ForEach,
    TryForEach,
    CollectResult,
}

#[derive(Clone, Copy, Debug, PartialEq, Eq, Hash)]
pub enum SourceKind {
    /// scripted stream `.co()`
    Co,
    /// `Vec::into_co_stream()`
    Vec,
}

#[derive(Clone, Debug, PartialEq, Eq, Hash)]
pub struct CoCase {
    pub source: SourceKind,
    /// Co: the stream's script (Yield = item). Vec: only the number of Yields counts.
    pub src_script: Vec<Step>,
    /// the source stream reports an exact size_hint
    /// 0 = none, 1 = exact, 2 = honest but inexact
    pub src_hint: u8,
    pub stack: Vec<Adapter>,
    pub terminal: Terminal,
    /// work[stage][item]: script of the future the closure of `stage` returns
    /// for the item with that source position. Stage s < stack.len() is the
    /// map closure at stack[s] (empty for non-map adapters); stage
    /// stack.len() is the terminal closure (for_each / try_for_each) or the
    /// fallible map in front of collect::<Result<..>>.
    pub work: Vec<Vec<LeafSpec>>,
    pub schedule: Vec<Action>,
    pub drain: Vec<u8>,
    pub no_drain: bool,
    /// the source never ends (a long range, a counter); only generated behind a
    /// `take(k)` with k <= the number of closure scripts. Its size hint is the
    /// honest (usize::MAX, Some(usize::MAX)).
    pub endless: bool,
}

impl CoCase {
    pub fn n_items(&self) -> usize {
        self.src_script.iter().filter(|s| matches!(s, Step::Yield(_) | Step::WakeYield)).count()
    }
    pub fn take_min(&self) -> Option<usize> {
        self.stack.iter().filter_map(|a| if let Adapter::Take(n) = a { Some(*n) } else { None }).min()
    }
    /// the concurrency limit the terminal operation sees
    pub fn limit(&self) -> Option<usize> {
        self.stack
            .iter()
            .rev()
            .find_map(|a| if let Adapter::Limit(n) = a { Some(*n) } else { None })
            .and_then(|n| if n == 0 { None } else { Some(n) })
    }
    pub fn expected_items(&self) -> usize {
        self.n_items().min(self.take_min().unwrap_or(usize::MAX))
    }
    fn steps(&self) -> usize {
        self.src_script.len() + 1 + self.work.iter().map(|st| st.iter().map(|l| l.script.len() + 1).sum::<usize>()).sum::<usize>()
    }
    pub fn has_never(&self) -> bool {
        self.src_script.contains(&Step::Never) || self.work.iter().any(|st| st.iter().any(|l| l.script.contains(&Step::Never)))
    }
    pub fn show(&self) -> String {
        let step = |s: &Step| match s {
            Step::Later => "P".to_string(),
            Step::SelfWake => "Pself".into(),
            Step::WakeSib(k) => format!("Psib{}", k),
            Step::Never => "NEVER".into(),
            Step::Yield(true) => "Y".into(),
            Step::Yield(false) => "ERR".into(),
            Step::WakeYield => "Ywake".into(),
            Step::End => "End".into(),
            Step::Panic => "PANIC".into(),
        };
        let src = match self.source {
            SourceKind::Co if self.endless => "stream<an item on every poll, for ever; size_hint (usize::MAX, Some(usize::MAX))>.co()".to_string(),
            SourceKind::Co => format!(
                "stream<{}{}>.co()",
                self.src_script.iter().map(step).collect::<Vec<_>>().join(" "),
                match self.src_hint { 1 => " exact-size_hint", 2 => " inexact-size_hint", 3 => " size_hint-with-huge-upper-bound", _ => "" }
            ),
            SourceKind::Vec => format!("vec[{}].into_co_stream()", self.n_items()),
        };
        let mut s = src;
        for a in &self.stack {
            s.push_str(&match a {
                Adapter::Map => ".map(f)".to_string(),
                Adapter::Enumerate => ".enumerate()".into(),
                Adapter::Take(n) => format!(".take({})", n),
                Adapter::Limit(0) => ".limit(None)".into(),
                Adapter::Limit(n) => format!(".limit({})", n),
            });
        }
        s.push_str(match self.terminal {
            Terminal::CollectVec => ".collect::<Vec<_>>()",
            Terminal::ForEach => ".for_each(g)",
            Terminal::TryForEach => ".try_for_each(g)",
            Terminal::CollectResult => ".map(try_g).collect::<Result<Vec<_>,_>>()",
        });
        let mut works = Vec::new();
        for (si, st) in self.work.iter().enumerate() {
            if st.is_empty() {
                continue;
            }
            let items: Vec<String> = st.iter().map(|l| format!("<{}>", l.script.iter().map(step).collect::<Vec<_>>().join(" "))).collect();
            works.push(format!("stage{}: {}", si, items.join(" ")));
        }
        let acts: Vec<String> = self
            .schedule
            .iter()
            .map(|a| match a {
                Action::Poll { reuse } => format!("Poll{}", if *reuse { "(same waker)" } else { "" }),
                Action::Fire { leaf, which, twice, thread } => format!(
                    "Fire(leaf~{},{}{}{})",
                    leaf,
                    if *which == 0 { "current".to_string() } else { format!("stale-{}", which) },
                    if *twice { ",x2" } else { "" },
                    if *thread { ",thread" } else { "" }
                ),
                Action::Drop => "Drop".into(),
                Action::FireAll => "FireAll".into(),
            })
            .collect();
        format!(
            "{} | closure futures by source position: {} | schedule: [{}]{}",
            s,
            works.join("; "),
            acts.join(" "),
            if self.no_drain { " (no drain)" } else { " then fair drain" }
        )
    }
}

// ------------------------------------------------------------------ log

#[derive(Clone, Debug)]
pub struct WorkRec {
    pub node: NodeId,
    pub stage: usize,
    /// source position of the item this closure invocation was given
    pub item: Option<usize>,
    pub input: Shape,
    /// token the work future produced (Ok or Err)
    pub output: Option<(bool, u32)>,
}

#[derive(Default)]
pub struct CoLog {
    pub scripts: Vec<Vec<LeafSpec>>,
    pub works: Vec<WorkRec>,
    /// token -> source position of the item it derives from
    pub root_of: BTreeMap<u32, usize>,
    pub src: Option<NodeId>,
    pub vec_items: Vec<u32>,
}

/// source position of the item a token derives from
fn item_of(w: &World, t: u32) -> Option<usize> {
    if let Some(i) = w.co.root_of.get(&t) {
        return Some(*i);
    }
    let src = w.co.src?;
    if w.toks.get(crate::val::index_of(t))?.producer != Some(src) {
        return None;
    }
    w.nodes[src].items().iter().position(|(_, s)| *s == Shape::T(t))
}

fn first_tok(s: &Shape) -> Option<u32> {
    let mut v = Vec::new();
    s.toks(&mut v);
    v.first().cloned()
}

// ------------------------------------------------------------------ work futures

pub trait Item: 'static {
    fn into_val(self) -> Val;
}
impl Item for Val {
    fn into_val(self) -> Val {
        self
    }
}
impl<T: Item> Item for (usize, T) {
    fn into_val(self) -> Val {
        Val::pair(self.0, self.1.into_val())
    }
}

/// State shared by the four work-future types: the input the closure was
/// given (dropped when the future completes or is dropped) and the node.
pub struct WorkCore {
    input: Option<Val>,
    mark: DropMark,
}

impl WorkCore {
    fn new(stage: usize, input: Val, flavor: Flavor) -> WorkCore {
        let shape = input.shape();
        let id = world::with(|w| {
            let top = w.top;
            let item = first_tok(&shape).and_then(|t| item_of(w, t));
            // a second invocation for the same (stage, item) re-uses the script
            let script = item.and_then(|i| w.co.scripts.get(stage).and_then(|s| s.get(i))).map(|l| l.script.clone()).unwrap_or_default();
            let idx = w.co.works.len();
            w.tick();
            let id = w.new_node(top, idx, NodeKind::Leaf { flavor, script, pos: 0, always: false, hint: 0, dropwake: false });
            w.nodes[id].item = item;
            if w.trace_on {
                let p = w.path(id);
                w.trace.push(format!(
                    "    closure of stage {} invoked with {} (source position {}) -> {}",
                    stage,
                    shape.show(),
                    item.map(|i| i.to_string()).unwrap_or_else(|| "?".into()),
                    p
                ));
            }
            w.co.works.push(WorkRec { node: id, stage, item, input: shape.clone(), output: None });
            id
        });
        WorkCore { input: Some(input), mark: DropMark(id) }
    }

    fn poll(&mut self, cx: &mut Context<'_>) -> Poll<(Val, bool)> {
        let id = self.mark.0;
        match world::leaf_poll(id, cx) {
            LeafOut::Pending => Poll::Pending,
            LeafOut::End => unreachable!(),
            LeafOut::Yield(t, ok) => {
                world::with(|w| {
                    let item = w.nodes[id].item;
                    if let Some(i) = item {
                        w.co.root_of.insert(t.id, i);
                    }
                    if let Some(r) = w.co.works.iter_mut().find(|r| r.node == id) {
                        r.output = Some((ok, t.id));
                    }
                });
                // the closure future consumed its input
                self.input = None;
                Poll::Ready((t, ok))
            }
        }
    }
}

/// map closure future: item -> new value
pub struct WorkF(WorkCore);
/// for_each closure future
pub struct WorkU(WorkCore);
/// try_for_each closure future
pub struct WorkRU(WorkCore);
/// fallible map in front of collect::<Result<Vec<_>,_>>
pub struct WorkR(WorkCore);

impl Future for WorkF {
    type Output = Val;
    fn poll(mut self: Pin<&mut Self>, cx: &mut Context<'_>) -> Poll<Val> {
        self.0.poll(cx).map(|(t, _)| t)
    }
}
impl Future for WorkU {
    type Output = ();
    fn poll(mut self: Pin<&mut Self>, cx: &mut Context<'_>) -> Poll<()> {
        self.0.poll(cx).map(|(t, _)| drop(t))
    }
}
impl Future for WorkRU {
    type Output = Result<(), Val>;
    fn poll(mut self: Pin<&mut Self>, cx: &mut Context<'_>) -> Poll<Result<(), Val>> {
        self.0.poll(cx).map(|(t, ok)| if ok { Ok(drop(t)) } else { Err(t) })
    }
}
impl Future for WorkR {
    type Output = Result<Val, Val>;
    fn poll(mut self: Pin<&mut Self>, cx: &mut Context<'_>) -> Poll<Result<Val, Val>> {
        self.0.poll(cx).map(|(t, ok)| if ok { Ok(t) } else { Err(t) })
    }
}

// ------------------------------------------------------------------ builder

fn unit() -> Val {
    Val::list(Vec::new())
}

fn terminal<CS>(cs: CS, t: Terminal, stage: usize) -> BoxF
where
    CS: ConcurrentStream + 'static,
    CS::Item: Item,
{
    match t {
        Terminal::CollectVec => Box::pin(async move {
            let v: Vec<CS::Item> = cs.collect().await;
            Val::list(v.into_iter().map(Item::into_val).collect())
        }),
        Terminal::ForEach => Box::pin(async move {
            cs.for_each(move |x: CS::Item| WorkU(WorkCore::new(stage, x.into_val(), Flavor::F))).await;
            unit()
        }),
        Terminal::TryForEach => Box::pin(async move {
            let r: Result<(), Val> = cs.try_for_each(move |x: CS::Item| WorkRU(WorkCore::new(stage, x.into_val(), Flavor::R))).await;
            Val::res(r.map(|()| unit()))
        }),
        Terminal::CollectResult => Box::pin(async move {
            let r: Result<Vec<Val>, Val> = cs.map(move |x: CS::Item| WorkR(WorkCore::new(stage, x.into_val(), Flavor::R))).collect().await;
            Val::res(r.map(Val::list))
        }),
    }
}

fn build0<CS>(cs: CS, _stack: &[Adapter], stage: usize, t: Terminal) -> BoxF
where
    CS: ConcurrentStream + 'static,
    CS::Item: Item,
{
    terminal(cs, t, stage)
}

macro_rules! build_level {
    ($name:ident, $next:ident) => {
        fn $name<CS>(cs: CS, stack: &[Adapter], stage: usize, t: Terminal) -> BoxF
        where
            CS: ConcurrentStream + 'static,
            CS::Item: Item,
        {
            match stack.split_first() {
                None => terminal(cs, t, stage),
                Some((Adapter::Map, rest)) => $next(cs.map(move |x: CS::Item| WorkF(WorkCore::new(stage, x.into_val(), Flavor::F))), rest, stage + 1, t),
                Some((Adapter::Enumerate, rest)) => $next(cs.enumerate(), rest, stage + 1, t),
                Some((Adapter::Take(n), rest)) => $next(cs.take(*n), rest, stage + 1, t),
                Some((Adapter::Limit(n), rest)) => $next(cs.limit(NonZeroUsize::new(*n)), rest, stage + 1, t),
            }
        }
    };
}
build_level!(build1, build0);
build_level!(build2, build1);
build_level!(build3, build2);

pub const MAX_DEPTH: usize = 3;

fn build_case(case: &CoCase, top: NodeId) -> BoxF {
    let n = case.n_items();
    world::with(|w| {
        w.co.scripts = case.work.clone();
    });
    match case.source {
        SourceKind::Co => {
            let src = world::with(|w| {
                let id = w.new_node(Some(top), 0, NodeKind::Leaf { flavor: Flavor::S, script: case.src_script.clone(), pos: 0, always: case.endless, hint: if case.endless { 4 } else { case.src_hint }, dropwake: false });
                w.co.src = Some(id);
                id
            });
            let s = LeafS(DropMark(src));
            build3(s.co(), &case.stack, 0, case.terminal)
        }
        SourceKind::Vec => {
            let items: Vec<Val> = (0..n)
                .map(|i| {
                    world::with(|w| {
                        let t = w.new_tok(top);
                        w.co.root_of.insert(t.id, i);
                        w.co.vec_items.push(t.id);
                        t
                    })
                })
                .collect();
            build3(items.into_co_stream(), &case.stack, 0, case.terminal)
        }
    }
}

// ------------------------------------------------------------------ run

pub struct CoOut {
    pub run: RunOut,
    pub resolved: bool,
}

pub fn run_co_case(case: &CoCase, std_cfg: bool, trace: bool) -> CoOut {
    world::reset(std_cfg, trace);
    let top = world::with(|w| {
        w.new_node(
            None,
            0,
            NodeKind::Comb {
                family: Family::Co,
                container: if case.source == SourceKind::Vec { Container::Vec } else { Container::Ext },
                children: Vec::new(),
            },
        )
    });
    world::with(|w| w.top = Some(top));
    let f = build_case(case, top);
    let mut ex = Exec::with_top(top, Top::F(f));
    for a in &case.schedule {
        ex.act(a);
    }
    let mut quiescent = false;
    if !case.no_drain && ex.alive() {
        let bound = case.steps() * 4 + 64;
        quiescent = ex.drain(&case.drain, bound);
    }
    let dropped_early = ex.dropped;
    let inconclusive = ex.inconclusive;
    let injected_panic = ex.injected_panic;
    let spurious_polls = ex.spurious_polls;
    let waker_changes_while_parked = ex.waker_changes_while_parked;
    let was_alive = ex.alive();
    let resolved = ex.finished;
    // progress: the fair drain reached quiescence, the operation is still
    // pending, and nothing is waiting on a never-completing future
    if quiescent && was_alive && !resolved {
        let tor = term_oracle(case.terminal);
        world::with(|w| {
            let never = w.nodes.iter().any(|n| n.is_leaf() && n.is_never() && n.dropped_at.is_none());
            if !never {
                let pending: Vec<String> = w
                    .nodes
                    .iter()
                    .filter(|n| n.is_leaf() && n.finished_at.is_none() && n.dropped_at.is_none())
                    .map(|n| format!("{} (last answer {})", w.path(n.id), n.last_answer().map(|a| a.show()).unwrap_or_else(|| "never polled".into())))
                    .collect();
                w.violate(
                    tor,
                    format!(
                        "the operation is Pending with no wake-up outstanding although the source and every closure future can make progress or have finished; unfinished: [{}]",
                        pending.join(", ")
                    ),
                );
            }
        });
    }
    let (held, held_r) = ex.finish();
    let leaves: Vec<NodeId> = world::with(|w| w.leaves.clone());
    for (i, l) in leaves.iter().enumerate() {
        if i < 3 {
            let _ = std::panic::catch_unwind(std::panic::AssertUnwindSafe(|| world::fire(*l, 0, false)));
        }
    }
    drop(held);
    drop(held_r);
    let world = world::take_world();
    CoOut {
        run: RunOut {
            world,
            top,
            inconclusive,
            quiescent: quiescent && was_alive,
            dropped_early,
            injected_panic,
            spurious_polls,
            waker_changes_while_parked,
        },
        resolved,
    }
}

// ------------------------------------------------------------------ oracles

fn term_oracle(t: Terminal) -> Oracle {
    match t {
        Terminal::ForEach => Oracle::Co13,
        Terminal::TryForEach | Terminal::CollectResult => Oracle::Co14,
        Terminal::CollectVec => Oracle::Co15,
    }
}

struct Ctx<'a> {
    case: &'a CoCase,
    /// source token of each produced item, by source position
    src_toks: Vec<u32>,
    /// by (stage, item): indices into works
    by: BTreeMap<(usize, usize), Vec<usize>>,
}

impl<'a> Ctx<'a> {
    /// is `stage` a closure stage, and which property owns its exactness?
    fn closure_stage(&self, stage: usize) -> bool {
        if stage < self.case.stack.len() {
            self.case.stack[stage] == Adapter::Map
        } else {
            self.case.terminal != Terminal::CollectVec
        }
    }

    /// the value the closure of `stage` must have been given for the item at
    /// source position `item` (None: an upstream map future has not produced
    /// its output)
    fn expected_in(&self, w: &World, stage: usize, item: usize) -> Option<Shape> {
        let mut s = Shape::T(*self.src_toks.get(item)?);
        for (si, a) in self.case.stack.iter().enumerate().take(stage) {
            match a {
                Adapter::Map => {
                    let wi = *self.by.get(&(si, item))?.first()?;
                    let (_, t) = w.co.works[wi].output?;
                    s = Shape::T(t);
                }
                Adapter::Enumerate => s = Shape::P(item, Box::new(s)),
                Adapter::Take(_) | Adapter::Limit(_) => {}
            }
        }
        Some(s)
    }
}

fn stage_name(case: &CoCase, stage: usize) -> String {
    if stage < case.stack.len() {
        format!("the map closure at position {} of the stack", stage)
    } else {
        match case.terminal {
            Terminal::ForEach => "the for_each closure".into(),
            Terminal::TryForEach => "the try_for_each closure".into(),
            Terminal::CollectResult => "the fallible map closure in front of collect".into(),
            Terminal::CollectVec => "collect".into(),
        }
    }
}

/// All concurrent-stream oracles, on the complete trace.
pub fn check_co(w: &mut World, case: &CoCase) {
    let top = w.top.unwrap();
    let term = case.terminal;
    let tor = term_oracle(term);
    let has_take = case.take_min().is_some();
    let src_toks: Vec<u32> = match case.source {
        SourceKind::Vec => w.co.vec_items.clone(),
        SourceKind::Co => w.nodes[w.co.src.unwrap()].items().iter().filter_map(|(_, s)| first_tok(s)).collect(),
    };
    let src_item_clocks: Vec<u32> = match case.source {
        SourceKind::Vec => Vec::new(),
        SourceKind::Co => w.nodes[w.co.src.unwrap()].items().iter().map(|(c, _)| *c).collect(),
    };
    let mut by: BTreeMap<(usize, usize), Vec<usize>> = BTreeMap::new();
    for (i, r) in w.co.works.iter().enumerate() {
        if let Some(it) = r.item {
            by.entry((r.stage, it)).or_default().push(i);
        }
    }
    let cx = Ctx { case, src_toks, by };
    let mut viol: Vec<(Oracle, String)> = Vec::new();
    let n_stages = case.stack.len() + 1;
    let take_min = case.take_min().unwrap_or(usize::MAX);
    let expected = case.expected_items();
    // which property owns "the right items went through this stage"
    let exact_oracles = |stage: usize| -> Vec<Oracle> {
        let mut v = Vec::new();
        if stage < case.stack.len() || has_take {
            v.push(Oracle::Co15);
        }
        if stage == case.stack.len() && !v.contains(&tor) {
            v.push(tor);
        }
        v
    };

    // (a) every closure invocation was given a value derived from a source item
    for r in &w.co.works {
        if r.item.is_none() {
            for o in exact_oracles(r.stage) {
                viol.push((o, format!("{} was invoked with {}, which is not derived from any source item", stage_name(case, r.stage), r.input.show())));
            }
        }
    }
    // (b) at most once per (stage, item); (c) with the right input; (d) within take
    for ((stage, item), idxs) in cx.by.iter() {
        if idxs.len() > 1 {
            for o in exact_oracles(*stage) {
                viol.push((o, format!("{} was invoked {} times for the item at source position {}", stage_name(case, *stage), idxs.len(), item)));
            }
        }
        if *item >= take_min {
            viol.push((
                Oracle::Co15,
                format!(
                    "take({}) in the stack, yet {} was invoked for the item at source position {} (only the first {} may be processed)",
                    take_min,
                    stage_name(case, *stage),
                    item,
                    take_min
                ),
            ));
        }
        let got = &w.co.works[idxs[0]].input;
        match cx.expected_in(w, *stage, *item) {
            Some(e) => {
                if *got != e {
                    let enumerated = case.stack.iter().take(*stage).any(|a| *a == Adapter::Enumerate);
                    for o in exact_oracles(*stage) {
                        viol.push((
                            o,
                            format!(
                                "{} was given {} for the item at source position {} but the stack in front of it produces {}{}",
                                stage_name(case, *stage),
                                got.show(),
                                item,
                                e.show(),
                                if enumerated { " (enumerate must pair an item with its zero-based source position)" } else { "" }
                            ),
                        ));
                    }
                }
            }
            None => {
                for o in exact_oracles(*stage) {
                    viol.push((
                        o,
                        format!(
                            "{} was invoked for the item at source position {} although an earlier stage has not produced that item's value",
                            stage_name(case, *stage),
                            item
                        ),
                    ));
                }
            }
        }
    }

    // the operation's result
    let result: Option<Shape> = w.nodes[top].polls.iter().find_map(|p| match &p.answer {
        Answer::Ready(s) => Some(s.clone()),
        _ => None,
    });
    let resolve_clock = w.nodes[top].finished_at;
    let term_stage = case.stack.len();
    let processed_at = |stage: usize| -> Vec<usize> { cx.by.keys().filter(|(s, _)| *s == stage).map(|(_, i)| *i).collect() };

    // fallible terminals: errors the closure futures actually returned
    let mut errs: Vec<(u32, u32)> = Vec::new(); // (clock, token)
    if matches!(term, Terminal::TryForEach | Terminal::CollectResult) {
        for r in &w.co.works {
            if r.stage == term_stage {
                if let Some((false, t)) = r.output {
                    let c = w.nodes[r.node].finished_at.unwrap_or(0);
                    errs.push((c, t));
                }
            }
        }
        errs.sort();
    }

    if let (Some(res), Some(rc)) = (&result, resolve_clock) {
        // every closure stage saw exactly the expected items
        let mut complete = true;
        for stage in 0..n_stages {
            if !cx.closure_stage(stage) {
                continue;
            }
            let got = processed_at(stage);
            let failed = !errs.is_empty();
            if !failed {
                for i in 0..expected {
                    if !got.contains(&i) {
                        complete = false;
                        for o in exact_oracles(stage) {
                            viol.push((
                                o,
                                format!(
                                    "the operation resolved but {} was never invoked for the item at source position {} ({} of the source's items must be processed)",
                                    stage_name(case, stage),
                                    i,
                                    expected
                                ),
                            ));
                        }
                    }
                }
            }
        }
        // structured: nothing in flight at resolution
        for r in &w.co.works {
            let n = &w.nodes[r.node];
            let unfinished_at_resolution = match n.finished_at {
                None => true,
                Some(c) => c > rc,
            };
            if unfinished_at_resolution && errs.is_empty() {
                let o = if r.stage == term_stage { tor } else { Oracle::Co15 };
                viol.push((
                    o,
                    format!(
                        "the operation resolved although the future returned by {} for the item at source position {:?} had not completed",
                        stage_name(case, r.stage),
                        r.item
                    ),
                ));
                complete = false;
            }
        }
        match term {
            Terminal::ForEach => {}
            Terminal::CollectVec => {
                if let Shape::L(list) = res {
                    if complete {
                        let mut want: Vec<Shape> = (0..expected).filter_map(|i| cx.expected_in(w, term_stage, i)).collect();
                        let mut have = list.clone();
                        let key = |s: &Shape| s.show();
                        want.sort_by_key(key);
                        have.sort_by_key(key);
                        if want != have {
                            viol.push((
                                Oracle::Co15,
                                format!(
                                    "collect returned {} but the per-item futures produced (one per processed source item) the multiset {}",
                                    Shape::L(list.clone()).show(),
                                    Shape::L((0..expected).filter_map(|i| cx.expected_in(w, term_stage, i)).collect()).show()
                                ),
                            ));
                        }
                    }
                } else {
                    viol.push((Oracle::Co15, format!("collect returned {}", res.show())));
                }
            }
            Terminal::TryForEach | Terminal::CollectResult => match res {
                Shape::Ok(inner) => {
                    if let Some((_, t)) = errs.first() {
                        viol.push((Oracle::Co14, format!("the operation resolved Ok although a closure future had resolved Err(t{})", crate::val::index_of(*t))));
                    } else if term == Terminal::CollectResult && complete {
                        if let Shape::L(list) = &**inner {
                            // C14 speaks about the Ok values the item futures produced;
                            // *which* items may be processed is C15's business
                            let mut want: Vec<Shape> = w
                                .co
                                .works
                                .iter()
                                .filter(|r| r.stage == term_stage)
                                .filter_map(|r| match r.output {
                                    Some((true, t)) => Some(Shape::T(t)),
                                    _ => None,
                                })
                                .collect();
                            let mut have = list.clone();
                            let key = |s: &Shape| s.show();
                            want.sort_by_key(key);
                            have.sort_by_key(key);
                            if want != have {
                                viol.push((
                                    Oracle::Co14,
                                    format!("collect returned Ok({}) but the Ok values the item futures produced are {}", Shape::L(list.clone()).show(), Shape::L(want).show()),
                                ));
                            }
                        }
                    }
                }
                Shape::Err(x) => {
                    let t = first_tok(x);
                    if !errs.iter().any(|(_, e)| Some(*e) == t) {
                        viol.push((
                            Oracle::Co14,
                            format!("the operation resolved Err({}) but no closure future returned that error (errors returned: {:?})", x.show(), errs.iter().map(|e| crate::val::index_of(e.1)).collect::<Vec<_>>()),
                        ));
                    }
                }
                other => viol.push((Oracle::Co14, format!("unexpected result {}", other.show()))),
            },
        }
    }

    // cancellation on the first error: nothing is taken from the source and
    // nothing else completes once an error has come out of a closure future
    if let Some((t_err, etok)) = errs.first().cloned() {
        if src_item_clocks.iter().any(|c| *c > t_err) {
            viol.push((Oracle::Co14, format!("a further item was taken from the source after a closure future had resolved Err(t{})", crate::val::index_of(etok))));
        }
        for r in &w.co.works {
            let n = &w.nodes[r.node];
            if n.created_at > t_err {
                viol.push((
                    Oracle::Co14,
                    format!("{} was invoked (for source position {:?}) after a closure future had resolved Err(t{})", stage_name(case, r.stage), r.item, crate::val::index_of(etok)),
                ));
                break;
            }
            if matches!(n.finished_at, Some(c) if c > t_err) {
                viol.push((
                    Oracle::Co14,
                    format!(
                        "the future returned by {} for source position {:?} ran to completion after a closure future had resolved Err(t{}): in-flight futures must be dropped unfinished",
                        stage_name(case, r.stage),
                        r.item,
                        crate::val::index_of(etok)
                    ),
                ));
                break;
            }
        }
    }

    // concurrency limit (for_each only): closure invocations created and not yet completed
    if term == Terminal::ForEach {
        if let Some(limit) = case.limit() {
            let term_works: Vec<NodeId> = w.co.works.iter().filter(|r| r.stage == term_stage).map(|r| r.node).collect();
            for &a in &term_works {
                let c = w.nodes[a].created_at;
                let live = term_works
                    .iter()
                    .filter(|&&b| {
                        let n = &w.nodes[b];
                        n.created_at <= c && n.finished_at.map(|f| f > c).unwrap_or(true) && n.dropped_at.map(|d| d > c).unwrap_or(true)
                    })
                    .count();
                if live > limit {
                    viol.push((
                        Oracle::Co13,
                        format!("limit({}) but {} for_each closure invocations existed at once whose futures had not completed", limit, live),
                    ));
                    break;
                }
            }
        }
    }

    for (o, m) in viol {
        w.violate(o, m);
    }
}

// ------------------------------------------------------------------ generator

#[derive(Clone)]
pub struct CoProfile {
    pub base: Profile,
    pub terminals: Vec<(Terminal, u32)>,
    /// weights of map, enumerate, take, limit
    pub adapters: [u32; 4],
    pub p_drop: u32,
    pub p_src_vec: u32,
    /// weight towards small finite limits with many items
    pub saturate: bool,
}

const ITEM_COUNTS: &[usize] = &[3, 0, 1, 2, 4, 5, 6, 3, 2, 7, 8, 9, 10, 11, 12, 4];

fn gen_work(c: &mut Cur, p: &Profile, fallible: bool) -> LeafSpec {
    let len = c.choice(4);
    let mut script = Vec::with_capacity(len + 1);
    for _ in 0..len {
        script.push(match c.weighted(&[(0u8, 60), (1, 22), (2, if p.sib_wakes { 12 } else { 0 })]) {
            0 => Step::Later,
            1 => Step::SelfWake,
            _ => Step::WakeSib(c.byte() % 16),
        });
    }
    if c.coin(p.p_never) {
        let at = c.choice(script.len() + 1);
        script.truncate(at);
        script.push(Step::Never);
    } else {
        let ok = !(fallible && c.coin(p.p_err));
        script.push(if ok && c.coin(20) { Step::WakeYield } else { Step::Yield(ok) });
    }
    LeafSpec { script, always: false, hint: 0, dropwake: false }
}

pub fn gen_co_case(bytes: &[u8], cp: &CoProfile) -> CoCase {
    let mut c = Cur::new(bytes);
    let p = &cp.base;
    let terminal = c.weighted(&cp.terminals);
    let source = if c.coin(cp.p_src_vec) { SourceKind::Vec } else { SourceKind::Co };
    let mut n = ITEM_COUNTS[c.choice(ITEM_COUNTS.len())];
    // now and then a long source: more items than any internal budget or
    // inline capacity (32, 61, 64, 256, 1024); their closure futures then
    // share one script per stage
    if c.coin(3) {
        n = [33usize, 70, 33, 70, 300, 1100][c.choice(6)];
    }
    // "mass completion": the source hands out m items back to back and then
    // pends; all their closure futures stay pending, are then woken together
    // with the source (FireAll) and complete inside ONE progress() call of the
    // consumer while the source has its next item ready - with one failure at
    // any position of that run (consumers count, batch and yield in such runs)
    let mass = (n == 33 || n == 70) && source == SourceKind::Co && c.coin(150);
    let mass_m = if mass { 32 + c.choice(n - 31) } else { 0 };
    // source script
    let mut src_script = Vec::new();
    if mass {
        for i in 0..n {
            if i == mass_m {
                src_script.push(Step::Later);
            }
            src_script.push(Step::Yield(true));
        }
        if mass_m == n {
            src_script.push(Step::Later);
        }
    }
    for _ in 0..(if mass { 0 } else { n }) {
        if source == SourceKind::Co {
            let pends = c.weighted(&[(0usize, 55), (1, 30), (2, 15)]);
            for _ in 0..pends {
                src_script.push(match c.weighted(&[(0u8, 60), (1, 25), (2, if p.sib_wakes { 15 } else { 0 })]) {
                    0 => Step::Later,
                    1 => Step::SelfWake,
                    _ => Step::WakeSib(c.byte() % 16),
                });
            }
        }
        src_script.push(if source == SourceKind::Co && c.coin(16) { Step::WakeYield } else { Step::Yield(true) });
    }
    if source == SourceKind::Co && !mass {
        let pends = c.weighted(&[(0usize, 60), (1, 30), (2, 10)]);
        for _ in 0..pends {
            src_script.push(if c.coin(64) { Step::SelfWake } else { Step::Later });
        }
        if c.coin(p.p_never / 2) {
            src_script.push(Step::Never);
        } else if c.coin(128) {
            src_script.push(Step::End);
        }
    }
    // adapter stack
    let depth = c.weighted(&[(0usize, 12), (1, 30), (2, 30), (3, 28)]);
    let mut stack = Vec::new();
    for _ in 0..depth {
        let mut k = c.weighted(&[(0u8, cp.adapters[0]), (1, cp.adapters[1]), (2, cp.adapters[2]), (3, cp.adapters[3])]);
        if mass {
            // nothing that holds items back
            k = k % 2;
        }
        stack.push(match k {
            0 => Adapter::Map,
            1 => Adapter::Enumerate,
            2 => {
                // all n >= 0: mostly around the source length, sometimes huge
                if c.coin(28) {
                    Adapter::Take([usize::MAX, usize::MAX / 2 + 1, 1usize << 33, u32::MAX as usize][c.choice(4)])
                } else {
                    Adapter::Take(c.choice(n + 3))
                }
            }
            _ => {
                if cp.saturate {
                    Adapter::Limit(c.weighted(&[(1usize, 30), (2, 30), (3, 20), (5, 8), (0, 12), (usize::MAX, 2), (1usize << 33, 1)]))
                } else {
                    // "all limits n": a huge limit is legal and means unlimited in practice (seeded change P10-a
                    // pre-sizes a table with it)
                    Adapter::Limit(c.weighted(&[(0usize, 20), (1, 25), (2, 25), (3, 15), (5, 15), (usize::MAX, 4), (1usize << 33, 2), (u32::MAX as usize, 1)]))
                }
            }
        });
    }
    if cp.saturate && !mass && !stack.iter().any(|a| matches!(a, Adapter::Limit(_))) && stack.len() < MAX_DEPTH && c.coin(200) {
        let at = c.choice(stack.len() + 1);
        stack.insert(at, Adapter::Limit(c.weighted(&[(1usize, 35), (2, 35), (3, 20), (5, 10)])));
    }
    // long sources also get the larger limits ("all limits n"): budgets and
    // inline capacities inside the consumers sit at 32, 61, 64, 256
    if n > 12 {
        for a in stack.iter_mut() {
            if let Adapter::Limit(l) = a {
                if c.coin(150) {
                    *l = if n >= 1100 && c.coin(110) { 1025 } else { [8usize, 33, 62, 64, 95, 96, 200][c.choice(7)] };
                }
            }
        }
    }
    // closure futures
    let mut work: Vec<Vec<LeafSpec>> = Vec::new();
    let mut stage = |c: &mut Cur, fallible: bool| -> Vec<LeafSpec> {
        if mass {
            let t = LeafSpec { script: vec![Step::Later, Step::Yield(true)], always: false, hint: 0, dropwake: false };
            let mut v = vec![t; n];
            if fallible && c.coin(200) {
                // anywhere in the run, with a bias to the places where counters and
                // batches of the usual sizes (16, 32, 61, 64) turn over
                const EDGES: &[usize] = &[31, 32, 63, 64, 15, 16, 30, 60, 61, 62, 33];
                let at = if c.coin(128) { EDGES[c.choice(EDGES.len())].min(n - 1) } else { c.choice(n) };
                v[at].script = vec![Step::Later, Step::Yield(false)];
            }
            return v;
        }
        if n > 12 {
            // one script for all items of this stage, except that a fallible
            // stage lets one item (anywhere) fail now and then
            let mut t = gen_work(c, p, false);
            if c.coin(150) && t.script.len() == 1 {
                t.script.insert(0, Step::Later);
            }
            let mut v = vec![t; n];
            if fallible && c.coin(p.p_err.max(60)) {
                let at = c.choice(n);
                if let Some(last) = v[at].script.last_mut() {
                    if matches!(last, Step::Yield(_) | Step::WakeYield) {
                        *last = Step::Yield(false);
                    }
                }
            }
            v
        } else {
            (0..n).map(|_| gen_work(c, p, fallible)).collect()
        }
    };
    for a in &stack {
        if *a == Adapter::Map {
            work.push(stage(&mut c, false));
        } else {
            work.push(Vec::new());
        }
    }
    match terminal {
        Terminal::CollectVec => work.push(Vec::new()),
        Terminal::ForEach => work.push(stage(&mut c, false)),
        Terminal::TryForEach | Terminal::CollectResult => work.push(stage(&mut c, true)),
    }
    if c.coin(p.p_panic) {
        // fault injection: one panic, in the source or in one closure future
        let stages: Vec<usize> = work.iter().enumerate().filter(|(_, v)| !v.is_empty()).map(|(i, _)| i).collect();
        let extra = if source == SourceKind::Co { 1 } else { 0 };
        if stages.len() + extra > 0 {
            let tgt = c.choice(stages.len() + extra);
            if tgt < stages.len() {
                let st = stages[tgt];
                let it = c.choice(work[st].len());
                let l = &mut work[st][it];
                let at = c.choice(l.script.len());
                l.script.truncate(at);
                l.script.push(Step::Panic);
            } else {
                let at = c.choice(src_script.len() + 1);
                src_script.truncate(at);
                src_script.push(Step::Panic);
            }
        }
    }
    let src_hint = if source == SourceKind::Co { c.weighted(&[(0u8, 130), (1, 56), (2, 50), (3, 20)]) } else { 0 };
    let mut sp = p.clone();
    sp.p_drop = cp.p_drop;
    let mut schedule = gen_schedule(&mut c, &sp);
    if mass {
        let mut s = vec![Action::Poll { reuse: false }, Action::FireAll, Action::Poll { reuse: false }];
        s.extend(schedule);
        schedule = s;
    }
    let no_drain = c.coin(p.p_nodrain);
    let drain: Vec<u8> = (0..32).map(|_| c.byte()).collect();
    // a source that never ends, behind a take(k) that the closure scripts cover
    let take_min = stack.iter().filter_map(|a| if let Adapter::Take(k) = a { Some(*k) } else { None }).min();
    let endless = source == SourceKind::Co && !mass && n > 0 && matches!(take_min, Some(k) if k <= n) && !src_script.contains(&Step::Panic) && c.coin(40);
    if endless {
        src_script = vec![Step::Yield(true); n];
    }
    CoCase { source, src_script, src_hint, stack, terminal, work, schedule, drain, no_drain, endless }
}

// ------------------------------------------------------------------ engine

pub struct CoEngine {
    pub prop: &'static str,
    pub profile: CoProfile,
}

/// facts about a finished run used for labels / non-triviality
pub struct CoFacts {
    pub backpressure: bool,
    pub limit_saturated: bool,
    pub err_in_flight: bool,
    pub any_err: bool,
    pub out_of_order: bool,
    pub works: usize,
}

pub fn facts(case: &CoCase, w: &World) -> CoFacts {
    let term_stage = case.stack.len();
    let term_works: Vec<&WorkRec> = w.co.works.iter().filter(|r| r.stage == term_stage).collect();
    let backpressure = term_works.iter().any(|r| w.nodes[r.node].polls.iter().map(|p| p.epoch).collect::<std::collections::BTreeSet<_>>().len() >= 2);
    let mut limit_saturated = false;
    if let Some(limit) = case.limit() {
        for a in &term_works {
            let c = w.nodes[a.node].created_at;
            let live = term_works
                .iter()
                .filter(|b| {
                    let n = &w.nodes[b.node];
                    n.created_at <= c && n.finished_at.map(|f| f > c).unwrap_or(true) && n.dropped_at.map(|d| d > c).unwrap_or(true)
                })
                .count();
            if live >= limit {
                limit_saturated = true;
            }
        }
    }
    let mut first_err = None;
    for r in &w.co.works {
        if let Some((false, _)) = r.output {
            let c = w.nodes[r.node].finished_at.unwrap_or(0);
            if first_err.map(|f| c < f).unwrap_or(true) {
                first_err = Some(c);
            }
        }
    }
    let err_in_flight = match first_err {
        None => false,
        Some(t) => w.co.works.iter().any(|r| {
            let n = &w.nodes[r.node];
            n.created_at < t && n.finished_at.map(|f| f > t).unwrap_or(true) && !n.polls.is_empty()
        }),
    };
    // completion order differs from source order in some closure stage
    let mut out_of_order = false;
    for stage in 0..=term_stage {
        let mut fin: Vec<(u32, usize)> = w
            .co
            .works
            .iter()
            .filter(|r| r.stage == stage)
            .filter_map(|r| Some((w.nodes[r.node].finished_at?, r.item?)))
            .collect();
        fin.sort();
        if fin.windows(2).any(|x| x[0].1 > x[1].1) {
            out_of_order = true;
        }
    }
    CoFacts { backpressure, limit_saturated, err_in_flight, any_err: first_err.is_some(), out_of_order, works: w.co.works.len() }
}

fn co_labels(case: &CoCase, out: &CoOut, f: &CoFacts) -> Vec<&'static str> {
    let mut l = Vec::new();
    l.push(match case.terminal {
        Terminal::CollectVec => "term_collect_vec",
        Terminal::ForEach => "term_for_each",
        Terminal::TryForEach => "term_try_for_each",
        Terminal::CollectResult => "term_collect_result",
    });
    l.push(if case.source == SourceKind::Vec { "src_vec" } else { "src_stream_co" });
    l.push(match case.stack.len() {
        0 => "stack_depth_0",
        1 => "stack_depth_1",
        2 => "stack_depth_2",
        _ => "stack_depth_3",
    });
    let n = case.n_items();
    if n == 0 {
        l.push("source_empty");
    }
    if let Some(t) = case.take_min() {
        if t > (1 << 20) {
            l.push("take_huge");
        }
        l.push(if t == 0 {
            "take_0"
        } else if t < n {
            "take_lt_len"
        } else {
            "take_ge_len"
        });
    }
    if case.stack.contains(&Adapter::Map) {
        l.push("has_map");
    }
    if case.stack.contains(&Adapter::Enumerate) {
        l.push("has_enumerate");
    }
    if case.limit().is_some() {
        l.push("finite_limit");
    }
    if f.backpressure {
        l.push("closure_future_spans_polls");
    }
    if f.limit_saturated {
        l.push("limit_saturated");
    }
    if f.any_err {
        l.push("closure_future_failed");
    }
    if f.err_in_flight {
        l.push("error_while_others_in_flight");
    }
    if f.out_of_order {
        l.push("completion_order_differs_from_source_order");
    }
    if out.resolved {
        l.push("resolved");
    }
    let r = &out.run;
    if r.dropped_early {
        l.push("dropped_by_schedule");
    }
    if r.quiescent {
        l.push("quiescent_pending");
    }
    if r.spurious_polls > 0 {
        l.push("spurious_poll");
    }
    if r.waker_changes_while_parked > 0 {
        l.push("parent_waker_changed_while_parked");
    }
    if case.has_never() {
        l.push("never_child");
    }
    if r.injected_panic {
        l.push("panic_injected");
    }
    if r.inconclusive.is_some() {
        l.push("inconclusive");
    }
    l
}

fn co_nontrivial(prop: &str, case: &CoCase, out: &CoOut, f: &CoFacts) -> bool {
    match prop {
        "C13" => case.limit().map(|l| case.n_items() > l).unwrap_or(false) && f.backpressure,
        "C14" => f.err_in_flight,
        "C15" => f.works > 0 && (case.stack.len() >= 2 || f.out_of_order),
        "C02" => {
            out.run.injected_panic
                || (out.run.dropped_early && {
                    let w = &out.run.world;
                    let fin = w.co.works.iter().any(|r| w.nodes[r.node].finished_at.is_some());
                    let unfin = w.co.works.iter().any(|r| w.nodes[r.node].finished_at.is_none());
                    fin && unfin
                })
        }
        "C03" => {
            let w = &out.run.world;
            w.co.src.map(|s| w.nodes[s].finished_at.is_some()).unwrap_or(false) && f.backpressure
        }
        _ => false,
    }
}

impl Engine for CoEngine {
    fn name(&self) -> &'static str {
        "co"
    }
    fn eval(&self, bytes: &[u8], trace: bool) -> Eval {
        let case = gen_co_case(bytes, &self.profile);
        self.eval_case(&case, trace)
    }
}

impl CoEngine {
    pub fn eval_case(&self, case: &CoCase, trace: bool) -> Eval {
        let mut out = run_co_case(case, cfg!(feature = "cfg-std"), trace);
        crate::oracle::check_drops(&mut out.run.world);
        check_co(&mut out.run.world, case);
        let f = facts(case, &out.run.world);
        let nontrivial = out.run.inconclusive.is_none() && co_nontrivial(self.prop, case, &out, &f);
        let labels = co_labels(case, &out, &f);
        let mut violations = if out.run.inconclusive.is_some() { Vec::new() } else { std::mem::take(&mut out.run.world.viol) };
        // ownership, panics out of the library, lost wake-ups and polls outside
        // the operation's own poll are violations of the terminal operation's
        // property as well
        let tor = term_oracle(case.terminal);
        let extra: Vec<world::Violation> = violations
            .iter()
            .filter(|v| matches!(v.oracle, Oracle::L | Oracle::D | Oracle::DV | Oracle::WakerPanic | Oracle::Panic(_)))
            .filter(|v| !(case.terminal == Terminal::CollectVec && matches!(v.oracle, Oracle::L | Oracle::D | Oracle::DV)))
            .map(|v| world::Violation { oracle: tor, msg: format!("[{:?}] {}", v.oracle, v.msg), fam: None, at: v.at })
            .collect();
        violations.extend(extra);
        let trace_lines = std::mem::take(&mut out.run.world.trace);
        let ev = Eval {
            violations,
            nontrivial,
            hash: hash_of(case),
            labels,
            inconclusive: out.run.inconclusive,
            show: case.show(),
            trace: trace_lines,
        };
        drop(out);
        world::reset(cfg!(feature = "cfg-std"), false);
        ev
    }
}

