//! Concurrent-stream driver (C13-C15).

#[derive(Default)]
pub struct CoLog {}
