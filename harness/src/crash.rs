//! Crash capture. A change to the crate under test can turn into undefined
//! behaviour (use after free, double free) that kills the process. The
//! handler below writes the bytes of the case the faulting worker was
//! executing to a file, using only async-signal-safe calls, and exits with
//! status 3 so that the driver can turn the crash into a replayable report.

use std::cell::Cell;
use std::sync::atomic::{AtomicUsize, Ordering};

pub const MAX_WORKERS: usize = 64;
pub const MAX_CASE: usize = 16384;

thread_local! {
    static WID: Cell<usize> = const { Cell::new(usize::MAX) };
}

struct Slots {
    data: [[u8; MAX_CASE]; MAX_WORKERS],
}
static mut SLOTS: Slots = Slots {
    data: [[0; MAX_CASE]; MAX_WORKERS],
};
static LENS: [AtomicUsize; MAX_WORKERS] = [const { AtomicUsize::new(0) }; MAX_WORKERS];
static mut PATH: [u8; 1024] = [0; 1024];

extern "C" {
    fn signal(signum: i32, handler: usize) -> usize;
    fn open(path: *const u8, flags: i32, mode: u32) -> i32;
    fn write(fd: i32, buf: *const u8, n: usize) -> isize;
    fn close(fd: i32) -> i32;
    fn _exit(code: i32) -> !;
}

extern "C" fn on_crash(_sig: i32) {
    unsafe {
        let wid = WID.try_with(|w| w.get()).unwrap_or(usize::MAX);
        let path = std::ptr::addr_of!(PATH) as *const u8;
        if *path != 0 {
            // O_WRONLY|O_CREAT|O_TRUNC
            let fd = open(path, 0o1 | 0o100 | 0o1000, 0o644);
            if fd >= 0 {
                if wid < MAX_WORKERS {
                    let n = LENS[wid].load(Ordering::Relaxed).min(MAX_CASE);
                    let p = std::ptr::addr_of!(SLOTS.data[wid]) as *const u8;
                    write(fd, p, n);
                }
                close(fd);
            }
        }
        _exit(3);
    }
}

pub fn install(path: &str) {
    unsafe {
        let p = std::ptr::addr_of_mut!(PATH) as *mut u8;
        let b = path.as_bytes();
        let n = b.len().min(1023);
        std::ptr::copy_nonoverlapping(b.as_ptr(), p, n);
        *p.add(n) = 0;
        for sig in [11, 7, 4, 6, 8] {
            // SIGSEGV, SIGBUS, SIGILL, SIGABRT, SIGFPE
            signal(sig, on_crash as usize);
        }
    }
}

pub fn worker() -> usize {
    WID.with(|w| w.get())
}

pub fn set_worker(id: usize) {
    WID.with(|w| w.set(id));
}

pub fn publish(bytes: &[u8]) {
    let wid = WID.with(|w| w.get());
    if wid < MAX_WORKERS {
        let n = bytes.len().min(MAX_CASE);
        unsafe {
            let p = std::ptr::addr_of_mut!(SLOTS.data[wid]) as *mut u8;
            std::ptr::copy_nonoverlapping(bytes.as_ptr(), p, n);
        }
        LENS[wid].store(n, Ordering::Relaxed);
    }
}
